"""Shared machinery of the checks: scratch space, building the Go harness against /repo's working tree,
running TLC, parsing its output, evidence files, verdict discipline (see DESIGN.md 2.4, 7)."""
import atexit
import json
import os
import re
import shutil
import subprocess
import sys
import tempfile
import time

VERIF = os.path.dirname(os.path.dirname(os.path.abspath(__file__)))
REPO = os.environ.get("VERIF_REPO", "/repo")
GO = os.environ.get("VERIF_GO", "go1.26.8")
T0 = time.time()

_scratch = None


def scratch():
    """Per-run scratch directory outside /repo and /verif, removed at exit."""
    global _scratch
    if _scratch is None:
        base = os.environ.get("VERIF_SCRATCH", "/var/tmp")
        os.makedirs(base, exist_ok=True)
        _scratch = tempfile.mkdtemp(prefix="verif-", dir=base)
        atexit.register(lambda: shutil.rmtree(_scratch, ignore_errors=True))
    return _scratch


def goenv():
    env = dict(os.environ)
    env.update({"GOFLAGS": "-mod=mod", "GOPROXY": "off", "GOSUMDB": "off", "GOTOOLCHAIN": "local", "TZ": "UTC",
                "CGO_ENABLED": env.get("CGO_ENABLED", "0")})
    return env


class ToolError(Exception):
    """The checker itself failed (build, TLC, timeout): exit 2, never a violation."""


def log(*a):
    print("[%6.1fs]" % (time.time() - T0), *a, file=sys.stderr, flush=True)


def build_harness(race=False):
    """Builds /verif/harness against the *current* working tree of /repo (hooks guard: tag verif)."""
    work = os.path.join(scratch(), "harness-race" if race else "harness")
    if os.path.exists(os.path.join(work, "gh")):
        return os.path.join(work, "gh")
    shutil.copytree(os.path.join(VERIF, "harness"), work)
    shutil.copy(os.path.join(REPO, "go.sum"), os.path.join(work, "go.sum"))
    mod = open(os.path.join(work, "go.mod")).read()
    mod = re.sub(r"=> /repo\b", "=> " + REPO, mod)
    open(os.path.join(work, "go.mod"), "w").write(mod)
    env = goenv()
    cmd = [GO, "build", "-tags", "verif", "-o", "gh"]
    if race:
        env["CGO_ENABLED"] = "1"
        cmd.append("-race")
    cmd.append(".")
    t = time.time()
    p = subprocess.run(cmd, cwd=work, env=env, capture_output=True, text=True)
    if p.returncode != 0:
        raise ToolError("harness does not build against %s:\n%s" % (REPO, p.stderr[-4000:]))
    log("harness built in %.1fs%s" % (time.time() - t, " (-race)" if race else ""))
    return os.path.join(work, "gh")


def run(cmd, cwd=None, timeout=3600, env=None, check=True):
    p = subprocess.run(cmd, cwd=cwd, env=env or goenv(), capture_output=True, text=True, timeout=timeout)
    if check and p.returncode != 0:
        raise ToolError("command failed (%d): %s\n%s\n%s" % (p.returncode, " ".join(cmd), p.stdout[-3000:], p.stderr[-3000:]))
    return p


_STATES = re.compile(r"(\d+) states generated, (\d+) distinct states found")
_FLAG = re.compile(r'<<"FLAG", "([^"]+)", (-?\d+), (\d+)>>')
_SUMMARY = re.compile(r'^"SUMMARY (.*)"$', re.M)


def tlc(spec_dir_files, tla, cfg, workdir, workers="1", timeout=1800, constants=None, extra=None, coverage=False, cfg_text=None, heap="3g"):
    """Runs TLC in workdir (a fresh copy of the spec files). Returns a dict with the parsed output."""
    os.makedirs(workdir, exist_ok=True)
    for f in os.listdir(os.path.join(VERIF, "spec")):
        if f.endswith(".tla") or f.endswith(".cfg"):
            shutil.copy(os.path.join(VERIF, "spec", f), workdir)
    if cfg_text is not None:
        open(os.path.join(workdir, cfg), "w").write(cfg_text)
    if constants:
        c = open(os.path.join(workdir, cfg)).read()
        for k, v in constants.items():
            c = re.sub(r"(%s\s*=\s*)\S+" % re.escape(k), lambda m: m.group(1) + v, c)
        open(os.path.join(workdir, cfg), "w").write(c)
    meta = os.path.join(workdir, "meta")
    tmp = os.path.join(workdir, "tmp")
    os.makedirs(tmp, exist_ok=True)
    env = dict(os.environ)
    env["JAVA_TOOL_OPTIONS"] = (env.get("JAVA_TOOL_OPTIONS", "") + " -Djava.io.tmpdir=" + tmp + " -Xss64m -Xmx" + heap).strip()
    cmd = ["tlc", "-workers", str(workers), "-metadir", meta, "-config", cfg]
    if coverage:
        cmd += ["-coverage", "1"]
    if extra:
        cmd += extra
    cmd.append(tla)
    t = time.time()
    try:
        p = subprocess.run(cmd, cwd=workdir, env=env, capture_output=True, text=True, timeout=timeout)
    except subprocess.TimeoutExpired:
        raise ToolError("TLC timed out after %ds on %s/%s" % (timeout, tla, cfg))
    out = p.stdout + p.stderr
    res = {"out": out, "rc": p.returncode, "wall": time.time() - t, "generated": 0, "distinct": 0,
           "flags": [(m.group(1), int(m.group(2)), int(m.group(3))) for m in _FLAG.finditer(out)],
           "summary": None, "ok": "Model checking completed. No error has been found." in out}
    m = None
    for m in _STATES.finditer(out):
        pass
    if m:
        res["generated"], res["distinct"] = int(m.group(1)), int(m.group(2))
    s = _SUMMARY.search(out)
    if s:
        res["summary"] = json.loads(json.loads('"' + s.group(1) + '"'))
    shutil.rmtree(meta, ignore_errors=True)
    shutil.rmtree(tmp, ignore_errors=True)
    return res


def tlc_failed(res, what):
    """Anything but a clean completion of a monitor / exporter run is a tool error."""
    tail = "\n".join(l for l in res["out"].splitlines() if l.strip())[-3000:]
    raise ToolError("TLC did not complete cleanly on %s (rc %d):\n%s" % (what, res["rc"], tail))


def write_evidence(prop, tier, seed, level, coverage, assumptions, violations, wall):
    os.makedirs(os.path.join(VERIF, "evidence"), exist_ok=True)
    ev = {"property_id": prop, "tier": tier, "seed": seed, "level": level, "coverage": coverage,
          "assumptions": assumptions, "wall_s": round(wall, 1), "violations": violations}
    path = os.path.join(VERIF, "evidence", prop + ".json")
    with open(path + ".tmp", "w") as f:
        json.dump(ev, f, indent=1, sort_keys=True)
    os.replace(path + ".tmp", path)
    return path


def known_findings():
    p = os.path.join(VERIF, "known_findings.json")
    if not os.path.exists(p):
        return []
    return json.load(open(p))["findings"]


def tier_seed():
    tier = os.environ.get("VERIF_TIER", "quick")
    seed = int(os.environ.get("VERIF_SEED", "1"))
    return tier, seed
