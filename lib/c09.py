"""C09 - instances are faithful copies, mutually isolated, and safe to run concurrently.
(1) fidelity: E-driver traces on first and second instances of generated rule sets (the earlier instance was run on
different facts and had its rules retracted), validated by the layer-A monitor; (2) isolation: histories of
spec/GruleLibrary.tla replayed (changing the library or one instance never changes another instance), and a reflect
walk showing that no AST node is reachable from both blueprint and instance or from two instances; (3) concurrency:
every interleaving of spec/GruleConc.tla (G goroutines x K gated steps) is replayed with the listener callbacks as
blocking gates on ONE shared library, plus ungated stress at GOMAXPROCS 1 / 2 / all, all built with -race; each
goroutine's trace is validated by the monitor and any race report is a violation."""
import json
import os
import time

import cases_family
import engine_family
import library_family
from common import VERIF, ToolError, build_harness, log, run, scratch, tlc, tlc_failed

BATCHES = [("core", 300, ["-variants", "fresh,second,second"]), ("memo", 250, ["-variants", "second,fresh"]),
           ("control", 120, ["-variants", "second"]), ("memo", 150, ["-calls", "3", "-variants", "fresh,second,json"]),
           ("core", 120, ["-variants", "xproc"])]


def check():
    r = engine_family.evaluate("C09", BATCHES, ["RET-nil", "RET-max"], "every trace runs on an instance (half of them on a second instance of a used library)")
    tier, seed = r["tier"], r["seed"]
    lib = library_family.check("C09")
    r["violations"] += lib["violations"]
    r["unreproduced"] += lib["unreproduced"]
    # ---- schedules
    race = build_harness(race=True)
    cfgs = [(2, 5)] if tier == "quick" else [(2, 7), (3, 4)]
    sched_total = 0
    conc_stats = []
    for i, (g, k) in enumerate(cfgs):
        cfg = "SPECIFICATION Spec\nCONSTANTS\n  G = %d\n  K = %d\nINVARIANTS Isolated BlueprintReadOnly Export\nCHECK_DEADLOCK FALSE\n" % (g, k)
        exp = cases_family.export_cases(100 + i, "GruleConc.tla", "MCConc.cfg", "CASE ", 4, cfg_text=cfg)
        d = exp["dir"]
        p = run([race, "conc-replay", "-in", exp["path"], "-out", "mm.ndjson", "-trace", "trace.ndjson", "-casefile", "cases.ndjson",
                 "-seed", str(seed), "-stress", "8" if tier == "quick" else "60"], cwd=d, timeout=3000, check=False)
        stats = None
        for line in p.stdout.splitlines():
            if line.startswith("STATS "):
                stats = json.loads(line[6:])
        races = p.stderr.count("WARNING: DATA RACE")
        if stats is None and not races:
            raise ToolError("conc-replay failed:\n" + p.stdout[-2000:] + p.stderr[-3000:])
        if races:
            r["violations"] += 1
            os.makedirs(os.path.join(VERIF, "replays"), exist_ok=True)
            path = os.path.join(VERIF, "replays", "C09-%s-%d-race%d.json" % (tier, seed, i + 1))
            json.dump({"property": "C09", "kind": "race", "g": g, "k": k, "seed": seed, "report": p.stderr[:6000],
                       "how": "./check C09 (the race detector's report is reproduced by re-running the schedules)"}, open(path, "w"), indent=1)
            print("VIOLATION property=C09 replay=%s" % path)
            print("  the race detector reported %d data race(s) while goroutines created and executed instances of one library" % races)
            continue
        mms = [json.loads(l) for l in open(os.path.join(d, "mm.ndjson"))]
        for mm in mms[:2]:
            r["violations"] += 1
            path = os.path.join(VERIF, "replays", "C09-%s-%d-shared%d.json" % (tier, seed, i + 1))
            os.makedirs(os.path.dirname(path), exist_ok=True)
            json.dump({"property": "C09", "kind": "shared-nodes", "finding": mm, "how": "./check C09"}, open(path, "w"), indent=1)
            print("VIOLATION property=C09 replay=%s" % path)
            print("  %s: %s" % (mm["what"], json.dumps(mm["got"])[:300]))
        res = tlc(None, "TraceEngine.tla", "TraceEngine.cfg", d, workers=1, timeout=3000)
        if not res["ok"]:
            tlc_failed(res, "traces of the concurrent runs")
        first = {}
        for code, tid, line in res["flags"]:
            first.setdefault(tid, code)
        if first:
            # a goroutine's projection is not a sequential behaviour
            r["violations"] += 1
            tid, code = sorted(first.items())[0]
            case = engine_family.load_case(d, tid)
            path = engine_family.save_replay("C09", tier, seed, 500 + i, code, case, engine_family.trace_events(d, tid),
                                             "trace of a goroutine of a concurrent run; %d of %d goroutine traces flagged" % (len(first), stats["goroutine_runs"]))
            print("VIOLATION property=C09 replay=%s" % path)
            print("  a goroutine running concurrently with others did not obtain a sequential run: %s" % code)
        sched_total += exp["n"]
        conc_stats.append({"G": g, "K": k, "schedules": exp["n"], "model_states": exp["distinct"], "replay": stats,
                           "goroutine_traces_validated": stats["goroutine_runs"], "trace_events": res["summary"]["lines"]})
        r["cov"]["states"] += exp["distinct"]
        r["cov"]["transitions"] += exp["generated"]
        r["cov"]["traces_validated_against_impl"] += stats["goroutine_runs"]
    cov = r["cov"]
    cov["concurrency"] = conc_stats
    cov["library_histories"] = {k: lib["cov"][k] for k in ("states", "transitions", "traces_validated_against_impl", "configs", "divergences")}
    cov["states"] += lib["cov"]["states"]
    cov["transitions"] += lib["cov"]["transitions"]
    cov["evaluations"] = cov["traces_validated_against_impl"] + lib["cov"]["evaluations"] + sched_total
    cov["distinct_nontrivial"] = cov["traces_validated_against_impl"] + lib["cov"]["distinct_nontrivial"] + sched_total
    cov["rule"] = ("(1) " + cov["rule"] + " (2) " + lib["cov"]["rule"] + " (3) every interleaving of G goroutines x K gated steps exported by TLC is replayed "
                   "under -race; every schedule is distinct.")
    cov["samples"] = cov["samples"][:2] + lib["cov"]["samples"][:1]
    r["own_marks"] = 1
    return engine_family.finish("C09", r)
