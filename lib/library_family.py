"""Library-history checks (C09 isolation/fidelity part, C12, C16, C17 second half): TLC enumerates every history
of spec/GruleLibrary.tla up to a depth (checking its action properties on the way) and exports each with
the expected outcome and projection per step; the harness replays every history on the real library
(rebuilt from /repo) and compares after every step.  spec -> code direction: the API is deterministic."""
import concurrent.futures as cf
import json
import os
import time

from common import VERIF, ToolError, build_harness, log, run, scratch, tier_seed, tlc, tlc_failed

ALL_OPS = ["build", "build2", "badsyntax", "badliteral", "rmlib", "rmkb", "rminst", "inst", "store", "load"]

# property -> list of (label, kbs, depth_quick, depth_thorough, ops, max_inst)
CONFIGS = {
    "C16": [("one-kb", ["k1"], 4, 5, ["build", "build2", "builddupc", "rmlib", "rmkb", "rminst", "inst", "store", "load"], 2),
            ("two-kbs", ["k1", "k2"], 3, 4, ["build", "rmlib", "rmkb", "inst", "store", "load"], 2)],
    "C17": [("rejected-builds", ["k1"], 4, 5, ["build", "badsyntax", "badliteral", "rmlib", "inst", "store", "load"], 2)],
    "C12": [("store-load", ["k1"], 4, 6, ["build", "rmlib", "inst", "store", "load"], 2),
            ("two-kbs", ["k1", "k2"], 3, 4, ["build", "rmlib", "store", "load"], 1)],
    "C09": [("instances", ["k1"], 4, 5, ["build", "rmlib", "rmkb", "rminst", "inst"], 3),
            ("after-rejects", ["k1"], 4, 4, ["build", "build2", "badsyntax", "badliteral", "inst", "rminst"], 2)],
}

NONTRIVIAL = {
    "C16": "a history in which a rule is removed (or a duplicate is rejected) and the knowledge base is then instantiated, stored, loaded or the name built again",
    "C17": "a history in which a rejected text is followed by instantiation, store, load or a further build",
    "C12": "a history in which a stored stream is loaded (accepted or refused) after the library changed",
    "C09": "a history in which an instance exists while the library or another instance is changed",
}


def nontrivial(prop, steps):
    ops = [s["op"] for s in steps]
    def after(first, then):
        for i, o in enumerate(ops):
            if o in first and any(x in then for x in ops[i + 1:]):
                return True
        return False
    if prop == "C16":
        return after({"rmlib", "rmkb", "rminst", "build2"}, {"inst", "store", "load", "build"}) or \
            any(s["op"] == "build" and not s["ok"] for s in steps)
    if prop == "C17":
        return after({"badsyntax", "badliteral"}, {"inst", "store", "load", "build"})
    if prop == "C12":
        return after({"store"}, {"load"})
    if prop == "C09":
        return after({"inst"}, {"rmlib", "rmkb", "rminst", "build", "inst", "badsyntax", "badliteral", "build2"})
    return True


def attribute(mm, steps):
    """Which property's statement the disagreement contradicts."""
    op, kind, i = mm["op"], mm["kind"], mm["step"]
    before = [s["op"] for s in steps[:i + 1]]
    rejected = any(o in ("badsyntax", "badliteral") for o in before)
    dup = any(s["op"] in ("build", "build2", "builddupc") and not s["ok"] for s in steps[:i + 1])
    removed = any(o in ("rmlib", "rmkb", "rminst") for o in before)
    loaded = any(o == "load" for o in before)
    if kind in ("hang", "unknown-version"):
        return "C09"        # a call on the library that does not return / a request for what is not there
    if kind == "panic":
        return "C20"
    if kind == "reporter":
        return "C17"
    if kind == "ret":
        return {"build": "C16", "build2": "C16", "builddupc": "C16", "badsyntax": "C17", "badliteral": "C17", "store": "C12", "load": "C12",
                "inst": "C17" if rejected else "C16" if (removed or dup) else "C12" if loaded else "C09"}.get(op, "C16")
    if kind in ("instantiate", "reload-instantiate"):
        return "C17" if rejected else "C16" if (removed or dup) else "C12" if (loaded or kind.startswith("reload")) else "C09"
    if kind in ("store", "reload", "proj-reloaded"):
        return "C17" if rejected and op.startswith("bad") else "C12"
    if kind == "proj-inst":
        return "C16" if op == "rminst" else "C09"
    if kind == "proj-lib":
        return {"badsyntax": "C17", "badliteral": "C17", "load": "C12", "store": "C12", "inst": "C09"}.get(op, "C16")
    return "C16"


def export(idx, label, kbs, depth, ops, max_inst):
    d = os.path.join(scratch(), "lib%d" % idx)
    os.makedirs(d, exist_ok=True)
    cfg = """SPECIFICATION Spec
CONSTANTS
  Kbs = {%s}
  RuleNames = {"A", "B"}
  Texts = {1, 2}
  MaxInst = %d
  Depth = %d
  Ops = {%s}
INVARIANT Export
PROPERTIES OtherKbsUntouched InstancesIsolated RemovedStaysRemoved RejectedBuildHarmless DupKeepsExisting
CHECK_DEADLOCK FALSE
""" % (", ".join('"%s"' % k for k in kbs), max_inst, depth, ", ".join('"%s"' % o for o in ops))
    res = tlc(None, "GruleLibrary.tla", "MCLibrary.cfg", d, workers=4, timeout=3000, cfg_text=cfg, heap="6g")
    if not res["ok"]:
        tlc_failed(res, "GruleLibrary " + label)
    n = 0
    path = os.path.join(d, "hist.ndjson")
    with open(path, "w") as o:
        for line in res["out"].splitlines():
            if line.startswith('"HIST '):
                o.write(json.loads(line)[5:] + "\n")
                n += 1
    if n == 0:
        raise ToolError("no history exported for " + label)
    return {"dir": d, "label": label, "hist": path, "n": n, "distinct": res["distinct"], "generated": res["generated"],
            "cfg": "Kbs=%s Depth=%d MaxInst=%d Ops=%s" % (kbs, depth, max_inst, ops)}


def replay_chunk(gh, d, k, lines, salt):
    inp = os.path.join(d, "chunk%d.ndjson" % k)
    with open(inp, "w") as f:
        f.writelines(lines)
    out = "mm%d.ndjson" % k
    p = run([gh, "lib-replay", "-in", inp, "-out", out, "-salt", str(salt)], cwd=d, timeout=3000)
    stats = None
    for line in p.stdout.splitlines():
        if line.startswith("STATS "):
            stats = json.loads(line[6:])
    hung = stats is not None and any(k.startswith("hang@") for k in stats.get("kinds", {}))
    if stats is None or (stats["histories"] != len(lines) and not hung):    # (after a history that did not return the process stops)
        raise ToolError("lib-replay did not process its chunk:\n" + p.stdout[-2000:] + p.stderr[-2000:])
    mms = [json.loads(l) for l in open(os.path.join(d, out))]
    return stats, mms


def confirm(gh, hist_line, salt_hint, tag):
    d = os.path.join(scratch(), "libconfirm-" + tag)
    os.makedirs(d, exist_ok=True)
    for salt in range(0, 9):
        stats, mms = replay_chunk(gh, d, salt, [hist_line + "\n"], salt)
        if mms:
            return mms[0]
    return None


def replay(path):
    r = json.load(open(path))
    gh = build_harness()
    mm = confirm(gh, json.dumps(r["history"]), 0, "replay")
    if mm:
        print("replay of %s: still diverges at step %d (%s / %s)" % (path, mm["step"], mm["op"], mm["kind"]))
        print("VIOLATION property=%s replay=%s" % (r["property"], path))
        return 1
    print("not reproduced on the current tree")
    return 0


def check(prop, extra_evidence=None):
    tier, seed = tier_seed()
    t0 = time.time()
    gh = build_harness()
    exports = []
    with cf.ThreadPoolExecutor(max_workers=4) as ex:
        futs = [ex.submit(export, i, label, kbs, (dq if tier == "quick" else dt), ops, mi)
                for i, (label, kbs, dq, dt, ops, mi) in enumerate(CONFIGS[prop])]
        exports = [f.result() for f in futs]
    log("%s %s: %s histories exported by TLC" % (prop, tier, [e["n"] for e in exports]))
    total = nontriv = steps = 0
    mismatches = []
    kinds = {}
    samples = []
    with cf.ThreadPoolExecutor(max_workers=12) as ex:
        futs = []
        for e in exports:
            lines = open(e["hist"]).readlines()
            for l in lines:
                if nontrivial(prop, json.loads(l)):
                    nontriv += 1
            samples.append(json.loads(lines[(seed * 7919) % len(lines)]))
            nchunks = max(1, min(12, len(lines) // 1500))
            for k in range(nchunks):
                futs.append(ex.submit(replay_chunk, gh, e["dir"], k, lines[k::nchunks], seed * 13 + k))
        for f in futs:
            stats, mms = f.result()
            total += stats["histories"]
            steps += stats["steps"]
            for k, v in stats["kinds"].items():
                kinds[k] = kinds.get(k, 0) + v
            mismatches.extend(mms)
    violations = 0
    unreproduced = 0
    seen = set()
    for mm in mismatches:
        hist = mm["hist"]
        p = attribute(mm, hist)
        key = (p, mm["op"], mm["kind"])
        if key in seen or sum(1 for k in seen if k[0] == p) >= 3:
            continue
        seen.add(key)
        again = confirm(gh, json.dumps(hist), 0, "%s-%d" % (p, len(seen)))
        if again is None:
            unreproduced += 1
            log("divergence %s did not reproduce" % (key,))
            continue
        violations += 1
        os.makedirs(os.path.join(VERIF, "replays"), exist_ok=True)
        path = os.path.join(VERIF, "replays", "%s-%s-%d-lib%d.json" % (p, tier, seed, violations))
        json.dump({"property": p, "kind": "lib-history", "history": hist, "step": mm["step"], "op": mm["op"], "what": mm["kind"],
                   "where": mm.get("where"), "want": mm["want"], "got": mm["got"], "how": "./check replay " + path},
                  open(path, "w"), indent=1)
        print("VIOLATION property=%s replay=%s" % (p, path))
        print("  history %s diverges at step %d (%s): %s; want %s got %s" % (
            [s["op"] + ("(" + s["name"] + str(s["text"]) + ")" if s["name"] else "") for s in hist], mm["step"], mm["op"], mm["kind"],
            json.dumps(mm["want"])[:200], json.dumps(mm["got"])[:300]))
    cov = {
        "states": sum(e["distinct"] for e in exports), "transitions": sum(e["generated"] for e in exports),
        "model": "GruleLibrary.tla: every history up to the depth, action properties OtherKbsUntouched InstancesIsolated "
                 "RemovedStaysRemoved RejectedBuildHarmless DupKeepsExisting hold",
        "configs": [e["cfg"] for e in exports],
        "traces_validated_against_impl": total, "history_steps_compared": steps,
        "evaluations": total, "distinct_nontrivial": nontriv,
        "rule": "every history of the configuration is replayed on the real library; after every step the operation's outcome and the "
                "projection (rules in force per knowledge base and per instance, by matching set, fired actions, description and salience "
                "on two probe fact states; instantiability; store/load round trip) are compared. Non-trivial for %s: %s." % (prop, NONTRIVIAL[prop]),
        "exhaustive": True, "samples": [[{k: s[k] for k in ("op", "kb", "name", "text", "inst", "ow", "ok")} for s in h] for h in samples],
        "divergences": len(mismatches), "divergence_kinds": kinds, "unreproduced": unreproduced,
    }
    if extra_evidence:
        cov.update(extra_evidence)
    result = {"cov": cov, "violations": violations, "unreproduced": unreproduced, "t0": t0, "tier": tier, "seed": seed}
    log("%s: %d histories (%d steps) replayed, %d diverging, %d violations" % (prop, total, steps, len(mismatches), violations))
    return result


def finish(prop, r, level="model_checking", assumptions=None):
    from common import write_evidence
    write_evidence(prop, r["tier"], r["seed"], level, r["cov"], assumptions or [
        "TLC and the CommunityModules Json module", "the replay harness's projection (probe facts, rule texts of harness/libreplay.go)",
        "bounded history depth, two rule names with two texts each, at most three instances"], r["violations"], time.time() - r["t0"])
    if r["violations"]:
        return 1
    if r["unreproduced"]:
        print("TOOL-ERROR: %d divergence(s) did not reproduce" % r["unreproduced"])
        return 2
    return 0


def main(prop):
    if prop == "C16":
        # removed rules inside running engines: generated rule sets in which rules were removed before instantiation; the monitor
        # requires that a removed rule is never evaluated, reported, fired or returned (flags C16-removed-rule-evaluated, C01-inactive-rule-fired,
        # C11-removed-rule-returned)
        import engine_family
        eng = engine_family.evaluate("C16", [("control", 250, ["-mode", "mixed", "-flagp", "0.3", "-variants", "fresh,reloaded,second"]),
                                             ("fetch", 250, ["-mode", "mixed", "-flagp", "0.3"])], ["C10", "C11", "RET-nil"],
                                     "runs of rule sets holding removed rules")
        r = check(prop)
        r["violations"] += eng["violations"]
        r["unreproduced"] += eng["unreproduced"]
        ec = eng["cov"]
        r["cov"]["engine_traces"] = {k: ec[k] for k in ("traces_validated_against_impl", "trace_events", "batches", "model")}
        r["cov"]["traces_validated_against_impl"] += ec["traces_validated_against_impl"]
        r["cov"]["states"] += ec["states"]
        r["cov"]["transitions"] += ec["transitions"]
        return finish(prop, r)
    return finish(prop, check(prop))
