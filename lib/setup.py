"""setup_cmd: verify the pre-installed toolchain and warm the Go build cache (offline)."""
import shutil
import subprocess

from common import GO, ToolError, build_harness, log


def main():
    for tool in (GO, "tlc", "java", "python3"):
        if shutil.which(tool) is None:
            raise ToolError("missing tool: " + tool)
    build_harness()
    p = subprocess.run(["java", "-version"], capture_output=True, text=True)
    log((p.stderr or p.stdout).splitlines()[0])
    print("setup ok")
    return 0
