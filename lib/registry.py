"""Property id -> check implementation."""
import engine_family

ENGINE = set(engine_family.PLAN)


def run(prop):
    if prop in ENGINE:
        return engine_family.check(prop)
    raise SystemExit("no check registered for %s" % prop)


def replay(kind, path):
    raise SystemExit("unknown replay kind %s" % kind)
