"""Property id -> check implementation."""
import engine_family
import library_family

ENGINE = set(engine_family.PLAN)


def run(prop):
    if prop in ENGINE:
        return engine_family.check(prop)
    if prop in ("C16",):
        return library_family.main(prop)
    if prop == "C05":
        import cases_family
        return cases_family.c05()
    if prop == "C04":
        import cases_family
        return cases_family.c04()
    if prop == "C17":
        import cases_family
        return cases_family.c17()
    if prop == "C20":
        import cases_family
        return cases_family.c20()
    if prop == "C18":
        import cases_family
        return cases_family.c18()
    if prop == "C07":
        import cases_family
        return cases_family.c07()
    if prop == "C19":
        import cases_family
        return cases_family.c19()
    if prop == "C09":
        import c09
        return c09.check()
    if prop == "C12":
        import c12
        return c12.check()
    if prop.startswith("LIB-"):   # development aid: the library-history part of a composite check alone
        return library_family.main(prop[4:])
    raise SystemExit("no check registered for %s" % prop)


def replay(kind, path):
    if kind == "lib-history":
        return library_family.replay(path)
    if kind == "case":
        import cases_family
        return cases_family.replay(path)
    if kind == "grb-cut":
        import c12
        return c12.replay_cut(path)
    if kind == "grb-writer":
        import c12
        return c12.replay_writer(path)
    raise SystemExit("unknown replay kind %s" % kind)
