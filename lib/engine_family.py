"""Engine-family checks (C01 C02 C03 C06 C08 C10 C11 C14 C15): exhaustive TLC run of the layer-A model
(spec/GruleEngine.tla, MCEngine*.cfg) plus trace validation of the real engine (E-driver -> ndjson ->
spec/TraceEngine.tla).  Verdicts come only from recorded executions of the real code that the monitor
rejects and that reproduce when the single case is re-run in a fresh process."""
import concurrent.futures as cf
import json
import os
import re
import subprocess
import shutil
import time

from common import (VERIF, ToolError, build_harness, known_findings, log, run, scratch, tier_seed, tlc, tlc_failed,
                    write_evidence)

# flag code -> property
def flag_property(code):
    if code.startswith("SETUP-reloaded"):
        return "C12"
    if code.startswith("SETUP-"):
        return "C09"
    if code.startswith("PROTO-"):
        return "C06"
    return code.split("-")[0]


ALLV = "fresh,reloaded,second,reloaded2,multi,multi,sharedctx,json"
# property -> (batches, antecedent marks, what makes a trace non-trivial)
# batch = (profile, cases at quick tier, extra harness arguments)
PLAN = {
    "C01": ([("pattern", 2, []), ("patternx", 1, []), ("patterne", 1, []), ("core", 500, ["-variants", ALLV]), ("memo", 300, ["-variants", ALLV]), ("control", 120, []),
             ("fault", 200, ["-calls", "3", "-flagp", "0.3"])],
            ["C01"], "a rule that was a candidate in the previous cycle is evaluated again after an action made its condition false"),
    "C02": ([("pattern", 2, []), ("patternx", 1, []), ("patterne", 1, []), ("core", 500, ["-variants", ALLV]), ("memo", 300, ["-variants", ALLV]), ("salience", 120, []),
             ("fault", 200, ["-calls", "3", "-flagp", "0.3"]), ("control", 150, ["-calls", "3"])],
            ["C02"], "a rule whose condition was false in the previous cycle is evaluated again after an action made it true"),
    "C03": ([("salience", 600, ["-reps", "3", "-variants", "fresh,json,multi"]), ("core", 150, []), ("control", 100, []), ("fault", 250, ["-flagp", "0.2", "-reps", "3"])],
            ["C03"], "a rule fired in a cycle whose recomputed conflict set held candidates of different salience"),
    "C06": ([("budget", 500, ["-listeners", "3", "-maxcycle", "5", "-shadow", "0.5"]), ("control", 150, ["-listeners", "2", "-shadow", "0.5"]),
             ("fault", 100, ["-flagp", "0.5", "-shadow", "0.5"]), ("memo", 200, ["-nest", "0.8", "-listeners", "2", "-maxcycle", "6"]),
             ("control", 200, ["-calls", "3", "-listeners", "2", "-variants", "fresh,second,json"]), ("budget", 12, ["-cancel", "-maxcycle", "4"])],
            ["C06", "C06q"], "a run that exhausted its cycle budget, or reached quiescence after at least one firing"),
    "C08": ([("reuse", 1, []), ("control", 300, ["-calls", "3", "-mode", "mixed", "-variants", "fresh,reloaded"]),
             ("fault", 200, ["-calls", "3", "-mode", "mixed", "-flagp", "0.3"]),
             ("core", 200, ["-calls", "3", "-mode", "mixed"]),
             ("control", 10, ["-calls", "2", "-cancel", "-maxcycle", "4"])],
            ["C08"], "a second or third call on an instance whose earlier call retracted a rule, completed, failed, hit the limit or was cancelled"),
    "C10": ([("patternx", 2, []), ("control", 700, ["-variants", ALLV]), ("salience", 150, []),
             ("fault", 250, ["-calls", "3", "-flagp", "0.3"]), ("control", 250, ["-calls", "3", "-variants", "fresh,second,json"]),
             ("control", 10, ["-calls", "2", "-cancel", "-maxcycle", "4"])],
            ["C10", "C10c"], "an action retracted a known rule or called Complete while other work was pending"),
    "C11": ([("fetch", 1200, ["-mode", "fetch", "-flagp", "0.3", "-variants", ALLV]), ("control", 200, ["-mode", "fetch"]),
             ("control", 250, ["-mode", "mixed", "-calls", "3"]), ("memo", 250, ["-mode", "mixed", "-calls", "3", "-variants", "fresh,second"])],
            ["C11"], "a fetch whose rule set holds both matching and non-matching (or removed, or failing) rules"),
    "C13": ([("memo13", 800, ["-variants", ALLV]), ("memo13", 200, ["-calls", "2", "-mode", "mixed"])],
            ["C13"], "a later cycle started while the working memory held the value of the counted method atom shared by the rules (so it is consulted again)"),
    "C14": ([("patterne", 2, []), ("fault", 800, ["-flagp", "0.5", "-variants", ALLV]), ("fault", 200, ["-mode", "mixed", "-flagp", "0.5"]),
             ("fault", 300, ["-calls", "3", "-flagp", "0.2", "-variants", "fresh,second,json"])],
            ["C14", "C14a"], "a condition evaluation or an action failed (nil pointer, index or key out of range, % 0, panicking method)"),
    "C15": ([("core", 25, ["-cancel", "-maxcycle", "4"]), ("memo", 20, ["-cancel", "-maxcycle", "4"]),
             ("control", 20, ["-cancel", "-maxcycle", "4"]), ("fault", 10, ["-cancel", "-maxcycle", "3", "-flagp", "0.5"])],
            ["C15"], "the context was cancelled at an observable point of the run (every point of every generated run is tried)"),
}

# profile -> (module, configuration, harness sub-command, what the model is)
EXPORTED = {
    "pattern": ("GruleMemo.tla", "MCMemo.cfg", "pattern-traces", "taint abstraction of the working memory, invariant MemoSound, dependency patterns"),
    "patternx": ("GruleMemo.tla", "MCMemoExt.cfg", "pattern-traces", "taint abstraction with control calls (Complete / Retract before the assignment) and a re-read of the reader's condition after it, invariant MemoSound"),
    "patterne": ("GruleMemo.tla", "MCMemoErr.cfg", "pattern-traces", "taint abstraction with a reader atom whose evaluation fails for one selector value (a condition that evaluated well fails after the writer ran, and back), invariant MemoSound"),
    "reuse": ("GruleReuse.tla", "MCReuse.cfg", "reuse-traces", "call histories on one instance (3 call kinds x 5 endings, depth 3), invariant FreshAtStart"),
}
MODEL = {"quick": ("MCEngine.tla", "MCEngineQuick.cfg"), "thorough": ("MCEngine.tla", "MCEngine.cfg")}
THOROUGH_FACTOR = 24
SESSION_MODEL = "MCEngineSession.cfg"   # several calls (Execute / Fetch) on one instance
SESSION_PROPS = ("C08", "C11")
DEDUCTIVE_PROPS = ("C01", "C02", "C03", "C06", "C08", "C11", "C15")
FOCUS = ["none"]     # the property whose check is running: names the flag when several checks of one event fail


def deductive():
    """TLAPS: the contract-level lemmas of spec/GruleEngineProofs.tla (unbounded: every rule set, fact state, budget, evaluation
    order, number of calls; expression semantics opaque). A failed proof is a defect of the specification, not of the code."""
    d = os.path.join(scratch(), "tlaps")
    os.makedirs(d, exist_ok=True)
    for f in ("GruleEngineCore.tla", "GruleEngineProofs.tla"):
        shutil.copy(os.path.join(VERIF, "spec", f), d)
    m, out = None, ""
    for stretch in ("1", "4"):
        # (the proofs concern the specification, not the code under test: under heavy load a back-end prover can time out, so the
        #  step is tried again with longer time-outs and, failing that, recorded as not established - it never decides a verdict)
        try:
            p = subprocess.run(["tlapm", "--threads", "8", "--stretch", stretch, "GruleEngineProofs.tla"], cwd=d, capture_output=True,
                               text=True, timeout=900)
        except FileNotFoundError:
            return {"module": "GruleEngineProofs.tla", "obligations_proved": 0, "statements": "tlapm is not installed: the deductive part was skipped"}
        except subprocess.TimeoutExpired:
            continue
        out = p.stdout + p.stderr
        m = re.search(r"All (\d+) obligations? proved", out)
        if m:
            break
    if not m:
        log("tlapm did not re-establish GruleEngineProofs.tla in this run (recorded in the evidence): " + out[-300:].replace("\n", " "))
        return {"module": "GruleEngineProofs.tla", "obligations_proved": 0, "statements": "not re-established in this run (prover time-out)"}
    return {"module": "GruleEngineProofs.tla", "obligations_proved": int(m.group(1)),
            "statements": "BudgetInv (C06), CandsInv (the conflict set is exact), FireIsSound (C01, C03), QuiescenceIsReal (C02), MaxIsNeeded (C06), "
                          "FetchIsExact (C11), CancelledIsQuiet (C15), CallsStartAfresh (C08): for every rule set, fact state, MaxCycle and evaluation order"}


def run_batch(gh, idx, profile, n, extra, seed, reps=2):
    d = os.path.join(scratch(), "b%d" % idx)
    os.makedirs(d, exist_ok=True)
    extra_model = None
    if profile in EXPORTED:
        # a TLA+ model is exhausted by TLC (its invariants checked) and every exported case is instantiated and run
        tla, cfg, subcmd, what = EXPORTED[profile]
        res = tlc(None, tla, cfg, os.path.join(d, "export"), workers=4, timeout=3000)
        if not res["ok"]:
            tlc_failed(res, "%s / %s" % (tla, cfg))
        seen = set()
        with open(os.path.join(d, "exported.ndjson"), "w") as o:
            for line in res["out"].splitlines():
                if line.startswith('"CASE '):
                    s = json.loads(line)[5:]
                    if s not in seen:
                        seen.add(s)
                        o.write(s + "\n")
        extra_model = {"what": "%s / %s: %s; %d cases exported" % (tla, cfg, what, len(seen)),
                       "distinct": res["distinct"], "generated": res["generated"], "patterns": len(seen)}
        cmd = [gh, subcmd, "-in", "exported.ndjson", "-seed", str(seed), "-out", "trace.ndjson", "-cases", "cases.ndjson"]
        if profile == "patterne":
            cmd += ["-flagp", "0.3", "-bystander"]
        if profile in ("pattern", "patternx", "patterne"):
            cmd += ["-worlds", str(n)]
    elif profile.startswith("grb:"):
        # C12 fault enumeration on the stored stream (truncation offsets, failing writer); traces only of prefixes that load
        cmd = [gh, "grb-faults", "-profile", profile[4:], "-seed", str(seed), "-n", str(n), "-out", "trace.ndjson", "-cases", "cases.ndjson"] + extra
    else:
        cmd = [gh, "engine-traces", "-profile", profile, "-seed", str(seed), "-n", str(n), "-out", "trace.ndjson", "-cases", "cases.ndjson"]
        if "-reps" not in extra:
            cmd += ["-reps", str(reps)]
        cmd += extra
    p = run(cmd, cwd=d, timeout=3000)
    stats = {}
    for line in p.stdout.splitlines():
        if line.startswith("STATS "):
            stats = json.loads(line[6:])
    if not stats:
        raise ToolError("driver printed no statistics: %s\n%s" % (" ".join(cmd), p.stdout[-2000:] + p.stderr[-2000:]))
    stats.setdefault("dropped_big", 0)
    if profile.startswith("grb:") and stats["events"] == 0:
        return {"dir": d, "profile": profile, "stats": stats, "cmd": " ".join(cmd[1:]), "extra_model": None,
                "tlc": {"flags": [], "distinct": 0, "summary": {"marks": {}, "lines": 0}}}
    if stats.get("events", 0) == 0:
        raise ToolError("driver produced no events: %s\n%s" % (" ".join(cmd), p.stdout[-2000:] + p.stderr[-2000:]))
    res = tlc(None, "TraceEngine.tla", "TraceEngine.cfg", d, workers=1, constants={"Focus": '"%s"' % FOCUS[0]}, timeout=3000)
    with open(os.path.join(d, "trace.ndjson")) as f:
        recorded = sum(1 for line in f if line.strip())
    # (the monitor must have consumed every recorded event: the count is taken from the trace file itself)
    if not res["ok"] or res["summary"] is None or res["summary"]["lines"] != recorded:
        tlc_failed(res, "batch %d (%s)" % (idx, profile))
    return {"dir": d, "profile": profile, "stats": stats, "tlc": res, "cmd": " ".join(cmd[1:]), "extra_model": extra_model}


def load_case(d, tid):
    """trace id = case id * 8 + index of the call within the case"""
    with open(os.path.join(d, "cases.ndjson")) as f:
        for line in f:
            c = json.loads(line)
            if c["id"] == tid // 8:
                return c
    return None


def trace_events(d, tid):
    out, on = [], False
    with open(os.path.join(d, "trace.ndjson")) as f:
        for line in f:
            ev = json.loads(line)
            if ev.get("ev") in ("begin", "setup-failed"):
                on = ev.get("id") == tid
            if on:
                out.append(ev)
    return out


def confirm(gh, case, prop, tag, reps=30):
    """Re-runs one case in a fresh process and validates it again; True if the same property is flagged."""
    d = os.path.join(scratch(), "confirm-" + tag)
    os.makedirs(d, exist_ok=True)
    with open(os.path.join(d, "case.ndjson"), "w") as f:
        f.write(json.dumps(case) + "\n")
    run([gh, "engine-replay", "-cases", "case.ndjson", "-out", "trace.ndjson", "-reps", str(reps)], cwd=d, timeout=1200)
    res = tlc(None, "TraceEngine.tla", "TraceEngine.cfg", d, workers=1, constants={"Focus": '"%s"' % FOCUS[0]}, timeout=1200)
    if not res["ok"]:
        tlc_failed(res, "confirmation run")
    first = {}
    for code, tid, line in res["flags"]:
        first.setdefault(tid, code)
    return any(flag_property(c) == prop for c in first.values()), sorted(set(first.values()))


def reattribute(gh, prop, case, tid, code, p):
    """A flag whose natural property is not the one being checked: is what was observed a violation of the
    checked property itself?  C08: the flagged call was not the first on its instance and is fine alone on a
    fresh instance.  C09: the same calls are fine on the library's own blueprint.  C12: the same calls are fine
    on an instance of the library that was never stored and loaded."""
    if prop == "C08" and tid % 8 > 0:
        alone = dict(case)
        alone["calls"] = [case["calls"][tid % 8]]
        still, _ = confirm(gh, alone, p, "%s-%d-alone" % (code, tid))
        if not still:
            return "C08-differs-from-fresh-instance(" + code + ")", "C08"
    if prop == "C09" and case.get("variant") in ("fresh", "second", "multi", "concurrent"):
        bp = dict(case)
        bp["variant"] = "blueprint"
        still, _ = confirm(gh, bp, p, "%s-%d-blueprint" % (code, tid))
        if not still:
            return "C09-instance-differs-from-blueprint(" + code + ")", "C09"
    if prop == "C12" and str(case.get("variant", "")).startswith("reloaded"):
        fr = dict(case)
        fr["variant"] = "fresh"
        still, _ = confirm(gh, fr, p, "%s-%d-unstored" % (code, tid))
        if not still:
            return "C12-loaded-differs-from-stored(" + code + ")", "C12"
    return code, p


def save_replay(prop, tier, seed, k, flag, case, events, note, natural=None):
    os.makedirs(os.path.join(VERIF, "replays"), exist_ok=True)
    path = os.path.join(VERIF, "replays", "%s-%s-%d-%d.json" % (prop, tier, seed, k))
    with open(path, "w") as f:
        json.dump({"property": prop, "flagged_as": natural or prop, "focus": FOCUS[0], "flag": flag, "kind": "engine-trace", "case": case, "observed": events, "note": note,
                   "how": "./check replay " + path}, f, indent=1)
    return path


def replay(path):
    """./check replay <file>: re-executes the recorded case on the current /repo tree."""
    r = json.load(open(path))
    gh = build_harness()
    FOCUS[0] = r.get("focus", "none")
    ok, codes = confirm(gh, r["case"], r.get("flagged_as", r["property"]), "replay", reps=50)
    print("replay of %s: flags now %s" % (path, codes))
    if ok:
        print("VIOLATION property=%s replay=%s" % (r["property"], path))
        return 1
    print("not reproduced on the current tree")
    return 0


def probe_alias(prop, gh):
    """Known finding (selector aliasing): prints its KNOWN-FINDING line while the dedicated probe still reproduces."""
    kf = [k for k in known_findings() if k["id"] == "C01-selector-aliasing" and k.get("status") == "known"]
    if not kf:
        return
    d = os.path.join(scratch(), "probe-alias")
    os.makedirs(d, exist_ok=True)
    run([gh, "probe-alias", "-out", "trace.ndjson", "-cases", "cases.ndjson"], cwd=d)
    res = tlc(None, "TraceEngine.tla", "TraceEngine.cfg", d, workers=1, constants={"Focus": '"%s"' % FOCUS[0]}, timeout=600)
    if not res["ok"]:
        tlc_failed(res, "alias probe")
    codes = sorted({c for c, _, _ in res["flags"] if flag_property(c) in ("C01", "C02")})
    if codes:
        print("KNOWN-FINDING: property=%s %s (probe flags %s)" % (prop, kf[0]["what"], ",".join(codes)))
    else:
        print("NOTE: known finding C01-selector-aliasing no longer reproduces on this tree (probe not flagged)")


def check(prop):
    r = evaluate(prop, *PLAN[prop])
    if prop in ("C01", "C02"):
        probe_alias(prop, r["gh"])
    return finish(prop, r)


def evaluate(prop, batches, marks, rule, thorough_factor=None):
    """Runs the exhaustive model and the driver batches, confirms flagged traces, prints VIOLATION lines.
    Returns what finish() needs (so that composite checks can add their own parts)."""
    tier, seed = tier_seed()
    t0 = time.time()
    gh = build_harness()
    FOCUS[0] = prop
    factor = (thorough_factor or THOROUGH_FACTOR) if tier == "thorough" else 1
    jobs = []
    idx = 0
    for (profile, n, extra) in batches:
        total = n * factor
        parts = max(1, min(12, total // 400)) if tier == "thorough" else 1
        if profile.startswith("grb:"):
            parts = total  # one rule set per process
        if profile in ("pattern", "patternx", "patterne"):
            parts, total = 1, (n if tier == "quick" else 4 * n)  # fact states per pattern
        if profile == "reuse":
            parts, total = 1, 1

        for part in range(parts):
            jobs.append((idx, profile, total // parts, extra, seed * 7919 + idx * 101 + part))
            idx += 1
    log("%s %s seed=%d: %d driver batches + exhaustive model" % (prop, tier, seed, len(jobs)))
    results = []
    with cf.ThreadPoolExecutor(max_workers=6) as ex:
        mtla, mcfg = MODEL[tier]
        fm = ex.submit(tlc, None, mtla, mcfg, os.path.join(scratch(), "model"), "8", 3000, heap="8g")
        fs = ex.submit(tlc, None, mtla, SESSION_MODEL, os.path.join(scratch(), "model-session"), "4", 3000, heap="6g") if prop in SESSION_PROPS else None
        fd = ex.submit(deductive) if prop in DEDUCTIVE_PROPS else None
        futs = [ex.submit(run_batch, gh, *j) for j in jobs]
        for f in futs:
            results.append(f.result())
        model = fm.result()
        session = fs.result() if fs else None
        proofs = fd.result() if fd else None
    if not model["ok"]:
        tlc_failed(model, "exhaustive model " + MODEL[tier][1])
    if session is not None and not session["ok"]:
        tlc_failed(session, "exhaustive model " + SESSION_MODEL)
    # gather
    traces = events = 0
    mark_counts = {}
    flagged = []  # (batch, code, tid, line)
    for b in results:
        traces += b["stats"]["runs"] - b["stats"]["dropped_big"]
        events += b["stats"]["events"]
        for k, v in dict(b["tlc"]["summary"]["marks"] or {}).items():
            mark_counts[k] = mark_counts.get(k, 0) + v
        first = {}
        for code, tid, line in b["tlc"]["flags"]:
            if tid not in first:
                first[tid] = (code, line)
        for tid, (code, line) in first.items():
            flagged.append((b, code, tid, line))
    violations = 0
    unreproduced = 0
    attempts = 0
    tried = {}
    reported = set()
    kf = [k for k in known_findings() if k.get("status") == "known"]
    for (b, code, tid, line) in sorted(flagged, key=lambda x: (x[1], x[2])):
        p = flag_property(code)
        if (p, code) in reported:
            continue
        if tried.get((p, code), 0) >= 2:
            continue
        tried[(p, code)] = tried.get((p, code), 0) + 1
        if violations >= 6 or attempts >= 14:
            break       # enough replays: every further flagged trace is counted in the evidence, not confirmed one by one
        attempts += 1
        if sum(1 for (pp, _) in reported if pp == p) >= 3:
            continue
        case = load_case(b["dir"], tid)
        if case is None:
            raise ToolError("flagged trace %d has no case record" % tid)
        ok, codes = confirm(gh, case, p, "%s-%d" % (code, tid))
        evs = trace_events(b["dir"], tid)
        natural = p
        if ok and p != prop:
            code, p = reattribute(gh, prop, case, tid, code, p)
        if not ok:
            unreproduced += 1
            log("flag %s on trace %d did NOT reproduce in 30 fresh runs (flags now: %s)" % (code, tid, codes))
            save_replay(p, tier, seed, 900 + unreproduced, code, case, evs, "unreproduced")
            continue
        if (p, code) in reported or sum(1 for (pp, _) in reported if pp == p) >= 3:
            continue
        reported.add((p, code))
        violations += 1
        path = save_replay(p, tier, seed, violations, code, case, evs, "confirmed in a fresh process", natural)
        print("VIOLATION property=%s replay=%s" % (p, path))
        print("  first failing guard: %s   program:\n    %s" % (code, case["grl"].replace("\n", "\n    ")))
    own_marks = sum(mark_counts.get(m, 0) for m in marks)
    samples = []
    for b in results[:3]:
        c = load_case(b["dir"], min(load_ids(b["dir"])) * 8)
        if c:
            samples.append({"profile": b["profile"], "variant": c["variant"], "grl": c["grl"], "calls": [
                {"mode": x["mode"], "max": x["max"], "flag": x["flag"], "cancelAt": x["cancelAt"]} for x in c["calls"]]})
    cov = {
        "states": model["distinct"] + sum(b["extra_model"]["distinct"] for b in results if b.get("extra_model")),
        "transitions": model["generated"] + sum(b["extra_model"]["generated"] for b in results if b.get("extra_model")),
        "model": "%s / %s: exhaustive, no invariant or action property violated" % MODEL[tier]
                 + ("; %s (sessions of 3 calls Execute / Fetch on one instance, FreshAtStart, FetchExact, FetchPure): %d distinct states"
                    % (SESSION_MODEL, session["distinct"]) if session else ""),
        "deductive": proofs,
        "traces_validated_against_impl": traces, "trace_events": events,
        "monitor_states": sum(b["tlc"]["distinct"] for b in results),
        "evaluations": traces, "distinct_nontrivial": own_marks,
        "rule": "trace = one Execute/Fetch call of a generated rule set on generated facts (seeded; rule order = Go map order, "
                "each case run several times). Non-trivial for %s: %s; counted by the monitor itself as (property, trace) marks." % (prop, rule),
        "antecedent_marks": mark_counts, "batches": [b["cmd"] for b in results],
        "layer_M_model": [b["extra_model"] for b in results if b.get("extra_model")],
        "samples": samples, "exhaustive": False, "flags_first_per_trace": len(flagged), "unreproduced_flags": unreproduced,
    }
    assumptions = ["TLC and the CommunityModules Json module", "the harness projection (fact snapshot, GRL printer)",
                   "generator discipline of DESIGN.md 2.4 (no selector aliasing, Forget after setters/reader methods, values below 2^20)",
                   "rule evaluation orders are sampled from Go map iteration, the oracle is order-independent"]
    log("%s: %d traces / %d events validated, model %d distinct states, antecedents %d, first-flags %d, violations %d"
        % (prop, traces, events, model["distinct"], own_marks, len(flagged), violations))
    return {"cov": cov, "assumptions": assumptions, "violations": violations, "unreproduced": unreproduced, "own_marks": own_marks,
            "t0": t0, "tier": tier, "seed": seed, "results": results, "gh": gh}


def finish(prop, r, level="model_checking"):
    write_evidence(prop, r["tier"], r["seed"], level, r["cov"], r["assumptions"], r["violations"], time.time() - r["t0"])
    if r["violations"]:
        return 1
    if r["unreproduced"]:
        print("TOOL-ERROR: %d flagged trace(s) / divergence(s) did not reproduce; see replays/" % r["unreproduced"])
        return 2
    if r["own_marks"] == 0:
        print("TOOL-ERROR: the antecedent of %s never occurred (vacuous run)" % prop)
        return 2
    return 0


def load_ids(d):
    ids = []
    with open(os.path.join(d, "cases.ndjson")) as f:
        for line in f:
            ids.append(json.loads(line)["id"])
    return ids or [0]
