"""spec -> code checks on deterministic, pure parts of the API (C04 C05 C07 C17 C18 C19): TLC enumerates a bounded
case space of a TLA+ module and computes the expected result of every case with the module's own operators; each
distinct state is exported as one JSON line; the harness replays every case on the real code and reports
disagreements; a disagreement is confirmed by replaying that single case in a fresh process."""
import concurrent.futures as cf
import json
import os
import time

from common import VERIF, ToolError, build_harness, log, run, scratch, tier_seed, tlc, tlc_failed, write_evidence


def export_cases(idx, tla, cfg, prefix="CASE ", workers=8, cfg_text=None, timeout=3000, simulate=None):
    d = os.path.join(scratch(), "exp%d" % idx)
    extra = None
    if simulate:
        extra = ["-simulate", "num=%d" % simulate["num"], "-depth", str(simulate["depth"]), "-seed", str(simulate["seed"])]
    res = tlc(None, tla, cfg, d, workers=workers, timeout=timeout, cfg_text=cfg_text, extra=extra, heap="6g")
    if not res["ok"] and not simulate:
        tlc_failed(res, "%s / %s" % (tla, cfg))
    seen = set()
    path = os.path.join(d, "cases.ndjson")
    with open(path, "w") as o:
        for line in res["out"].splitlines():
            if line.startswith('"' + prefix):
                s = json.loads(line)[len(prefix):]
                if s in seen:
                    continue
                seen.add(s)
                o.write(s + "\n")
    if not seen:
        tlc_failed(res, "%s / %s exported nothing" % (tla, cfg))
    return {"dir": d, "path": path, "n": len(seen), "distinct": res["distinct"], "generated": res["generated"], "what": "%s / %s" % (tla, cfg)}


def replay_chunk(gh, subcmd, d, k, lines, extra=None):
    inp = os.path.join(d, "chunk%d.ndjson" % k)
    with open(inp, "w") as f:
        f.writelines(lines)
    out = os.path.join(d, "mm%d.ndjson" % k)
    p = run([gh, subcmd, "-in", inp, "-out", out] + (extra or []), cwd=d, timeout=3000)
    stats = None
    for line in p.stdout.splitlines():
        if line.startswith("STATS "):
            stats = json.loads(line[6:])
    if stats is None or stats.get("cases") != len(lines):
        raise ToolError("%s did not process its chunk (%d cases):\n%s" % (subcmd, len(lines), p.stdout[-2000:] + p.stderr[-2000:]))
    mms = [json.loads(l) for l in open(out)]
    return stats, mms


def replay_all(gh, subcmd, export, chunks=8, extra=None):
    lines = open(export["path"]).readlines()
    chunks = max(1, min(chunks, len(lines) // 200))
    stats_all, mms = [], []
    with cf.ThreadPoolExecutor(max_workers=12) as ex:
        futs = [ex.submit(replay_chunk, gh, subcmd, export["dir"], k, lines[k::chunks], extra) for k in range(chunks)]
        for f in futs:
            s, m = f.result()
            stats_all.append(s)
            mms.extend(m)
    total = {}
    for s in stats_all:
        for k, v in s.items():
            if isinstance(v, int):
                total[k] = total.get(k, 0) + v
            elif isinstance(v, dict):
                t = total.setdefault(k, {})
                for kk, vv in v.items():
                    t[kk] = t.get(kk, 0) + vv
    return total, mms, lines


def confirm_case(gh, subcmd, case_line, tag, extra=None, company=None):
    """Re-runs one case in a fresh process - in the company it was built in, if the disagreement recorded one (what a text means
    may depend on the texts built before it): then only a disagreement on the case itself counts."""
    d = os.path.join(scratch(), "caseconfirm-" + tag)
    os.makedirs(d, exist_ok=True)
    lines = [case_line.rstrip("\n") + "\n"]
    if company:
        lines = [json.dumps(c) + "\n" for c in company]
    stats, mms = replay_chunk(gh, subcmd, d, 0, lines, extra)
    if company:
        target = json.loads(case_line)
        mms = [m for m in mms if m.get("line") == target]
    return mms


def save_case_replay(prop, tier, seed, k, subcmd, case_line, mm, extra=None, company=None):
    os.makedirs(os.path.join(VERIF, "replays"), exist_ok=True)
    path = os.path.join(VERIF, "replays", "%s-%s-%d-case%d.json" % (prop, tier, seed, k))
    json.dump({"property": prop, "kind": "case", "subcmd": subcmd, "extra": extra or [], "case": json.loads(case_line), "company": company, "disagreement": mm,
               "how": "./check replay " + path}, open(path, "w"), indent=1)
    return path


def replay(path):
    r = json.load(open(path))
    gh = build_harness()
    mms = confirm_case(gh, r["subcmd"], json.dumps(r["case"]), "replay", r.get("extra"), r.get("company"))
    if mms:
        print("replay of %s: still disagrees: %s" % (path, json.dumps(mms[0])[:400]))
        print("VIOLATION property=%s replay=%s" % (r["property"], path))
        return 1
    print("not reproduced on the current tree")
    return 0


def report(prop, tier, seed, gh, subcmd, mms, key_of, case_of, known=None, extra=None, attribute=None, limit=3):
    """Confirms and prints disagreements (at most `limit` per distinct key). known(mm) -> finding text or None."""
    violations = unreproduced = 0
    seen = {}
    known_hits = {}
    for mm in mms:
        kf = known(mm) if known else None
        if kf:
            known_hits[kf] = known_hits.get(kf, 0) + 1
            continue
        k = key_of(mm)
        p = attribute(mm) if attribute else prop
        if k in seen or sum(1 for kk in seen if seen[kk] == p) >= limit:
            continue
        line = json.dumps(case_of(mm))
        again = confirm_case(gh, subcmd, line, "%s-%d" % (p, len(seen)), extra)
        company = None
        if not again and mm.get("company"):
            company = mm["company"]
            again = confirm_case(gh, subcmd, line, "%s-%d-company" % (p, len(seen)), extra, company)
        if known:
            again = [m for m in again if not known(m)]
        if not again:
            unreproduced += 1
            log("disagreement %s did not reproduce" % (k,))
            continue
        seen[k] = p
        violations += 1
        path = save_case_replay(p, tier, seed, violations, subcmd, line, again[0], extra, company)
        print("VIOLATION property=%s replay=%s" % (p, path))
        print("  %s" % json.dumps(again[0])[:600])
    for text, n in sorted(known_hits.items()):
        print("KNOWN-FINDING: property=%s %s (%d cases)" % (prop, text, n))
    return violations, unreproduced, known_hits


def c19():
    tier, seed = tier_seed()
    t0 = time.time()
    gh = build_harness()
    exp = export_cases(0, "GrlValues.tla", "MCCompare.cfg" if tier == "quick" else "MCCompareFull.cfg")
    log("C19: %d cases exported by TLC" % exp["n"])
    stats, mms, lines = replay_all(gh, "cmp-replay", exp, chunks=8)
    violations, unrep, _ = report("C19", tier, seed, gh, "cmp-replay", mms,
                                  key_of=lambda m: (m["case"]["fam"], m["case"].get("lk"), m["case"].get("rk"), m["op"], m["route"].split()[0]),
                                  case_of=lambda m: m["line"])
    cov = {"states": exp["distinct"], "transitions": exp["generated"], "traces_validated_against_impl": exp["n"],
           "model": "GrlValues.tla / %s: whole finite domain (thorough: plain / pointer / interface on both sides), laws of Six(Cmp) checked as ASSUME"
                    % ("MCCompare.cfg" if tier == "quick" else "MCCompareFull.cfg"),
           "evaluations": stats.get("operator_applications", 0) + stats.get("grl_interface", 0) + stats.get("grl_typed", 0),
           "distinct_nontrivial": exp["n"], "exhaustive": True, "replay": stats,
           "rule": "case = ordered pair of operand forms (kind x plain/pointer/interface, or time form) x pair of boundary values both kinds hold exactly; "
                   "all six operators are applied through pkg.Evaluate* and through GRL conditions (interface fields; typed fields for a subset); every case is "
                   "distinct by construction (TLC state) and non-trivial (it fixes six outcomes)",
           "samples": [json.loads(lines[(seed * 7919 + i * 104729) % len(lines)]) for i in range(3)], "disagreements": len(mms)}
    write_evidence("C19", tier, seed, "model_checking", cov, ["TLC and the Json module", "the harness's table of symbolic value names (cross-checked "
                   "against the model's ranks on every case)", "values restricted to those both operand kinds hold exactly, NaN excluded"],
                   violations, time.time() - t0)
    log("C19: %d cases replayed, %d disagreements, %d violations" % (exp["n"], len(mms), violations))
    return 1 if violations else 2 if unrep else 0


def find_case(lines, c):
    for l in lines:
        j = json.loads(l)
        if j.get("c") == c:
            return j
    raise ToolError("disagreeing case not found among the exported ones")


# ---------------------------------------------------------------------------------------------------------------
def _known_ids(prop):
    from common import known_findings
    return {k["id"]: k for k in known_findings() if k["property"] == prop and k.get("status") == "known"}


def _tval_eq(a, b):
    keys = ("t", "n", "d", "v", "s")
    return all((a or {}).get(k) in (b.get(k), None) or (a or {}).get(k) == b.get(k) for k in keys)


def c05():
    tier, seed = tier_seed()
    t0 = time.time()
    gh = build_harness()
    known = _known_ids("C05")
    cfgs = ["MCExprFlat2.cfg", "MCExprFlat3.cfg" if tier == "quick" else "MCExprFlat3Full.cfg", "MCExprLit.cfg", "MCExpr_touch.cfg", "MCExpr_strlit.cfg",
            "MCExprTreeQuick.cfg" if tier == "quick" else "MCExprTree.cfg"]
    builtins = ["MCBuiltins_%s.cfg" % g for g in ("str2", "str1", "replace", "in", "num", "order")]
    with cf.ThreadPoolExecutor(max_workers=4) as ex:
        futs = [ex.submit(export_cases, i, "MCExpr.tla", c, "CASE ", 4) for i, c in enumerate(cfgs)]
        futs += [ex.submit(export_cases, 20 + i, "GrlBuiltins.tla", c, "CASE ", 2) for i, c in enumerate(builtins)]
        exports = [f.result() for f in futs]
    log("C05: cases exported by TLC: %s" % {e["what"].split("/ ")[1]: e["n"] for e in exports})

    def known_match(mm):
        if mm["fam"] == "flat" and mm["route"] == "flat" and mm.get("amp") and "C05-amp-precedence" in known:
            iw = mm.get("implWant") or {}
            got = mm["got"]
            val = {"i": str(iw.get("n")), "b": str(iw.get("v")).lower(), "s": iw.get("s")}.get(iw.get("t"))
            if iw.get("t") == "r":
                val = repr(iw["n"] / iw["d"]).rstrip("0").rstrip(".") if iw["d"] else None
                try:
                    if float(got) == iw["n"] / iw["d"]:
                        return known["C05-amp-precedence"]["what"]
                except ValueError:
                    pass
            if val is not None and got == val:
                return known["C05-amp-precedence"]["what"]
            # the implementation's grouping may also be ill-kinded where the table's is not (13 & 6 / 3)
            if iw.get("t") in ("err", "skip") and got.startswith("error"):
                return known["C05-amp-precedence"]["what"]
        if mm["fam"] == "lit":
            lit = mm["line"]["lit"]
            if lit["base"] == 10 and lit["dot"] and not lit["frac"] and "C05-literal-dot-no-digits" in known:
                return known["C05-literal-dot-no-digits"]["what"]
            if lit["base"] == 10 and (lit["dot"] or lit["exp"]["has"]) and len(lit["int"]) > 1 and lit["int"][0] == 0 \
                    and "C05-literal-leading-zero" in known:
                return known["C05-literal-leading-zero"]["what"]
        return None

    total_stats, all_mms, samples = {}, [], []
    for e in exports:
        stats, mms, lines = replay_all(gh, "expr-replay", e, chunks=12)
        for k, v in stats.items():
            if isinstance(v, int):
                total_stats[k] = total_stats.get(k, 0) + v
        all_mms += mms
        samples.append(json.loads(lines[(seed * 7919) % len(lines)]))
    violations, unrep, known_hits = report("C05", tier, seed, gh, "expr-replay", all_mms,
                                           key_of=lambda m: (m["fam"], m["route"], m["want"]["t"], m["got"][:30]),
                                           case_of=lambda m: m["line"], known=known_match)
    n = sum(e["n"] for e in exports)
    cov = {"states": sum(e["distinct"] for e in exports), "transitions": sum(e["generated"] for e in exports),
           "traces_validated_against_impl": n, "evaluations": total_stats.get("evaluations", 0), "distinct_nontrivial": n,
           "model": "GrlExpr.tla via MCExpr.tla: %s; invariant AmpOnly (the two groupings differ only around &); GrlBuiltins.tla: %s"
                    % (", ".join(cfgs), ", ".join(builtins)),
           "rule": "case = well-typed member of a bounded family: flat operator sequences of 2 and 3 operators over all 15 operators (grouping left to the "
                   "parser, and fully parenthesised), depth-2 trees with negation, parenthesised sub-expressions, strings and failing operands (short "
                   "circuit), operands that record their evaluation (exactly the operands the short-circuit rules reach are evaluated, each once), number literals "
                   "in every documented notation, string literals built from plain characters and every escape form (bytes for \\x / octal, UTF-8 for \\u); calls of the string built-ins over all strings up to length 3 of a 4-letter alphabet "
                   "(receiver as constant and through a map entry of a fact), variadic In / Max / Min, Abs / Floor / Ceil / Round, and fact methods whose result "
                   "depends on argument order (fixed, variadic, mixed kinds); each printed with varying spacing, comments and keyword case; the value "
                   "is captured by a typed sink method so the kind is checked too. Every exported case is a distinct TLC state.",
           "exhaustive": True, "samples": samples, "disagreements": len(all_mms), "known_finding_cases": known_hits,
           "not_modelled": ["regular expressions (MatchString)", "transcendental math built-ins, time built-ins, Now()", "array Append / Clear"]}
    write_evidence("C05", tier, seed, "model_checking", cov, ["TLC and the Json module", "the harness's printers (flat / full / literal text) and typed sink",
                   "values are dyadic rationals so that float64 arithmetic is exact; division by zero, overflow and NaN are outside the family"],
                   violations, time.time() - t0)
    log("C05: %d cases, %d evaluations, %d disagreements (%d known-finding cases), %d violations" % (
        n, total_stats.get("evaluations", 0), len(all_mms), sum(known_hits.values()), violations))
    return 1 if violations else 2 if unrep else 0


def simple_cases_check(prop, tla, cfgs, subcmd, rule, model_text, key_of, assumptions, not_modelled=None, chunks=8, workers=4,
                       known=None, attribute=None, level="model_checking", extra_cov=None, extra_violations=0, extra_unrep=0):
    """export -> replay -> confirm -> evidence for checks with one harness subcommand."""
    tier, seed = tier_seed()
    t0 = time.time()
    gh = build_harness()
    with cf.ThreadPoolExecutor(max_workers=4) as ex:
        futs = [ex.submit(export_cases, i, tla, c, "CASE ", workers) for i, c in enumerate(cfgs)]
        exports = [f.result() for f in futs]
    total_stats, all_mms, samples = {}, [], []
    for e in exports:
        stats, mms, lines = replay_all(gh, subcmd, e, chunks=chunks)
        for k, v in stats.items():
            if isinstance(v, int):
                total_stats[k] = total_stats.get(k, 0) + v
            elif isinstance(v, dict):
                t = total_stats.setdefault(k, {})
                for kk, vv in v.items():
                    t[kk] = t.get(kk, 0) + vv
        all_mms += mms
        samples.append(json.loads(lines[(seed * 7919) % len(lines)]))
    violations, unrep, known_hits = report(prop, tier, seed, gh, subcmd, all_mms, key_of=key_of, case_of=lambda m: m["line"],
                                           known=known, attribute=attribute)
    n = sum(e["n"] for e in exports)
    evals = sum(v for k, v in total_stats.items() if isinstance(v, int) and k not in ("cases", "disagreements"))
    cov = {"states": sum(e["distinct"] for e in exports), "transitions": sum(e["generated"] for e in exports),
           "traces_validated_against_impl": n, "evaluations": max(evals, n), "distinct_nontrivial": n, "model": model_text, "rule": rule,
           "exhaustive": True, "samples": samples, "disagreements": len(all_mms), "known_finding_cases": known_hits, "replay": total_stats}
    if not_modelled:
        cov["not_modelled"] = not_modelled
    if extra_cov:
        for k, v in extra_cov.items():
            if k in ("states", "transitions", "traces_validated_against_impl", "evaluations", "distinct_nontrivial") and isinstance(v, int):
                cov[k] += v
            elif k == "samples":
                cov["samples"] += v[:1]
            else:
                cov[k] = v
    violations += extra_violations
    unrep += extra_unrep
    write_evidence(prop, tier, seed, level, cov, assumptions, violations, time.time() - t0)
    log("%s: %d cases replayed (%s), %d disagreements, %d violations" % (prop, n, total_stats, len(all_mms), violations))
    return 1 if violations else 2 if unrep else 0


def c07():
    tier, _ = tier_seed()
    return simple_cases_check(
        "C07", "GrlSiblings.tla", ["MCSiblings.cfg"] + (["MCSiblingsPool.cfg"] if tier == "thorough" else []), "sib-replay",
        rule="case = pair of near-identical sibling rules (one constant digit beyond the 6th decimal / sign / exponent / int vs float / string "
             "characters incl. quotes, brackets and the engine's node-signature syntax / one operator / one negation / operand order / selector / "
             "argument - on plain paths and through call results F.Me().X, F.GetArr()[0], F.GetM()[\"a\"], F.Other().X -, constants of different "
             "types with coinciding stored encodings) with 3-5 fact states; each rule is built alone, the pair in both orders, in two resources in both "
             "orders, among other rules, and three times stored and loaded (10 knowledge bases per case); thorough tier: ANY two of the 145 rules "
             "of the pool (20 880 ordered pairs); in each, FetchMatchingRules membership and the value stored by Execute must equal what the model "
             "computes for the rule alone. Every case is a distinct TLC state and distinguishes its two siblings (invariant Distinguishable).",
        model_text="GrlSiblings.tla / MCSiblings.cfg: all sibling families, invariant Distinguishable",
        key_of=lambda m: (m["fam"], m["config"], m["what"].split()[0]),
        assumptions=["TLC and the Json module", "the harness's term printer and typed sink methods", "decimal constants are exact in the model; the "
                     "harness maps them to the nearest float64 (monotone, distinct for all constants used)"])


def c04():
    import engine_family
    # multi-cycle view: generated rule sets whose actions write through every path shape (incl. re-pointing F.P), the monitor
    # compares the whole fact after every firing (flags C04-facts-at-cycle / C04-final-facts)
    eng = engine_family.evaluate("C04", [("core", 400, ["-variants", "fresh,second,multi,json"]), ("memo", 150, []),
                                         ("core", 150, ["-calls", "3"])], ["C01", "C02", "C03"],
                                 "a run in which some rule fired and the fact snapshot of the next cycle was compared with RunActions")
    ec = eng["cov"]
    extra = {"states": ec["states"], "transitions": ec["transitions"], "traces_validated_against_impl": ec["traces_validated_against_impl"],
             "evaluations": ec["evaluations"], "engine_traces": {k: ec[k] for k in ("traces_validated_against_impl", "trace_events", "batches", "model")},
             "samples": ec["samples"]}
    return simple_cases_check(
        "C04", "GrlAssign.tla", ["MCAssign.cfg"], "asg-replay",
        rule="case = action list of one assignment (every location of the store x 5 forms x constants / reads of locations of other kinds / "
             "arithmetic over them), of two assignments where the second right-hand side reads the first target, of three (x := a; a := v; y := x: "
             "copy semantics), and the scaled families (64-bit integer places, every integer times 2^53+1, set / add / sub); locations: time.Time fields, "
             "unsigned slice elements and map entries, struct fields of every "
             "integer / unsigned / float width, string, bool, fields behind a pointer, *int64 / *float64 fields, slice elements, map entries, JSON "
             "members (nested, array element), top-level context variables. After Execute the WHOLE fact (40 locations) is compared with the "
             "expected store, so wrong targets and clobbered neighbours show; a kind the map refuses must yield an error with the earlier effects kept.",
        model_text="GrlAssign.tla / MCAssign.cfg: all single assignments and read-after-write pairs, invariant Frame",
        key_of=lambda m: (m["fam"], m["what"].split()[0], m["line"]["acts"][-1]["t"].split("[")[0], m["line"]["acts"][-1]["form"]),
        assumptions=["TLC and the Json module", "the harness's location table (initial values equal the model's Store0, checked implicitly on every "
                     "untouched location of every case)", "values are small and dyadic: no overflow, float32/float64 exact; values outside the "
                     "destination's range, string+real renderings and reads of *number fields as plain right-hand sides are outside the family"],
        not_modelled=["time arithmetic", "bare reads of pointer-to-number fields"], chunks=8, workers=8, extra_cov=extra, extra_violations=eng["violations"],
        extra_unrep=eng["unreproduced"])


def c18():
    tier, _ = tier_seed()
    cfgs = ["MCJson0.cfg", "MCJson1.cfg", "MCJson2.cfg"] + (["MCJson3.cfg"] if tier == "thorough" else ["MCJson3.cfg"])
    return simple_cases_check(
        "C18", "GrlJson.tla", cfgs, "json-replay",
        rule="case = JSON operator tree of depth 1-3 over all 15 operators (2 and 3 operands, single-operand not) with operands given as plain numbers / "
             "booleans / strings (object paths), {obj} and {const} wrappers or nested operator objects - well-typed ones only, with the value ToTree/Eval "
             "gives when operands group exactly as nested; each goes through the real JSON resource -> translator -> GRL builder -> engine as the "
             "argument of a typed sink call and, when boolean, also as the condition of a companion rule; names, descriptions (with quotes, "
             "backslashes, newlines) and saliences are compared; 20 string constants with special characters must round-trip as constant, in a "
             "condition and as description; 20 malformed rule shapes must be refused (alone and inside a rule set).",
        model_text="GrlJson.tla (ToTree into GrlExpr.tla): depth 1, 2, 3 families, strings, malformed shapes",
        key_of=lambda m: (m["fam"], m["what"].split()[0], str(m["got"])[:25]),
        assumptions=["TLC and the Json module", "the harness's JSON printer and typed sink", "dyadic values; only ASCII strings travel through the Json module"],
        not_modelled=["set actions on arbitrary targets (only call actions carry the trees)", "non-ASCII strings"], chunks=12, workers=4)


def c17():
    import library_family
    lib = library_family.check("C17")
    lc = lib["cov"]
    extra = {"states": lc["states"], "transitions": lc["transitions"], "traces_validated_against_impl": lc["traces_validated_against_impl"],
             "evaluations": lc["evaluations"], "library_histories": {k: lc[k] for k in ("traces_validated_against_impl", "configs", "divergences", "rule")},
             "samples": lc["samples"]}
    return simple_cases_check(
        "C17", "GrlGrammar.tla", ["MCGrammar.cfg"] + (["MCGrammarDouble.cfg"] if tier_seed()[0] == "thorough" else []), "gram-replay",
        rule="case = token-kind document: one of three valid documents (together using every construct of the grammar) or one single mutation of it - "
             "delete / duplicate / swap a token, replace it by or insert any of 33 token kinds (incl. illegal character, unterminated string, invalid "
             "escape, integer beyond int64, salience beyond int32, a repeated rule name, keywords in any case) at every position; the harness prints "
             "representative text, builds it after a good rule was loaded, and compares: acceptance = recogniser verdict; accepted => exactly the declared "
             "rule table; syntax refusal => GruleErrorReporter with entries; refusal => no rule but complete grammatical ones taken over; afterwards the "
             "earlier rule is instantiable, matches, fires as before, and survives store/load. Plus histories of rejected builds (GruleLibrary.tla).",
        model_text="GrlGrammar.tla / MCGrammar.cfg: all single mutations of 3 base documents, invariant BasesValid; GruleLibrary.tla histories with rejected builds",
        key_of=lambda m: (m["what"], m["mut"], str(m["want"])[:20]),
        assumptions=["TLC and the Json module", "the harness's token printer (representative text per token kind)",
                     "the recogniser is a hand transcription of antlr/grulev3.g4 at token-kind level"],
        chunks=12, workers=8, extra_cov=extra, extra_violations=lib["violations"], extra_unrep=lib["unreproduced"])


def c20():
    known = _known_ids("C20")

    def known_match(mm):
        f = mm["fault"]
        if f["loader"] == "grl" and f["val"] == "deep" and "C20-grl-deep-nesting" in known and not mm["what"].startswith("the loader panicked"):
            return known["C20-grl-deep-nesting"]["what"]
        if f["loader"] == "grl" and (f["kind"] == "repeat" or f["val"] == "longchain") and "C20-grl-long-chain" in known \
                and not mm["what"].startswith("the loader panicked"):
            return known["C20-grl-long-chain"]["what"]
        return None
    return simple_cases_check(
        "C20", "GrbStream.tla", ["MCFaults.cfg"], "load-faults",
        rule="case = structure-aware fault on a valid input: for the binary stream an 8-byte length / count field (the n-th from the start or the end) "
             "overwritten by one of 20 boundary values (0, 1, len+-1, 2^16 ... 2^64-1), a bit flip, a truncation, a splice; for GRL text, JSON rule text "
             "and JSON fact text a truncation, an insertion or a repetition of boundary material (huge number, deep nesting, stray quote / brace / NUL, "
             "100 kB identifier, non-UTF-8 bytes, blank input). Each input is loaded in a child process under ulimit -v which reports its own "
             "allocation (TotalAlloc delta) and time; bound: 48 MiB + 2 KiB per input byte, 8 s; a panic, an abort of the process or a hang is a violation.",
        model_text="GrbStream.tla / MCFaults.cfg: the enumerated fault space (no semantics: expected outcome of every case is Bounded)",
        key_of=lambda m: (m["fault"]["loader"], m["fault"]["kind"], m["fault"]["val"], m["what"][:25]),
        assumptions=["TLC and the Json module", "runtime.MemStats.TotalAlloc measured in the child around the loader call", "ulimit -v in a sh child",
                     "valid base inputs generated from the seed"],
        not_modelled=["random bytes: a TLA+ model has nothing to say about unstructured input (see DESIGN.md section 6); C20 is claimed at exploration level"],
        chunks=1, workers=4, known=known_match, level="exploration")
