"""C12 - binary store/load yields an equivalent knowledge base or an error.
Parts: (1) round-trip equivalence: the E-driver on instances of stored-and-reloaded (once, twice) libraries, traces
validated by the layer-A monitor, metadata compared; (2) crash points: every truncation offset of the stored stream of
generated rule sets must be refused, or the prefix must behave like the stored rule set (its traces go to the monitor);
a writer failing at its k-th Write call, for every k, must make the store call fail; (3) histories of store / load /
overwrite mixed with build / remove / instantiate (spec/GruleLibrary.tla)."""
import json
import os
import time

import engine_family
import library_family
from common import VERIF, build_harness, log, run, scratch

BATCHES = [("core", 350, ["-variants", "reloaded,reloaded2,reloaded"]), ("memo", 200, ["-variants", "reloaded,reloaded2"]),
           ("control", 120, ["-variants", "reloaded,reloaded2", "-mode", "mixed"]), ("core", 100, ["-variants", "xproc"]),
           ("fetch", 150, ["-variants", "reloaded,reloaded2", "-mode", "mixed", "-flagp", "0.2"]), ("grb:small", 4, [])]


def check():
    r = engine_family.evaluate("C12", BATCHES, ["RET-nil", "RET-max"],
                               "every trace of part (1) runs on a knowledge base that went through the stream; part (2) counts fault points")
    tier, seed = r["tier"], r["seed"]
    cuts = rejected = loaded = wtried = wrep = progs = nbytes = 0
    store_nil = []
    cut_differs = []
    for b in r["results"]:
        st = b["stats"]
        if b["profile"].startswith("grb:"):
            cuts += st["cuts_tried"]; rejected += st["cuts_rejected"]; loaded += st["cuts_loaded"]
            wtried += st["writer_faults_tried"]; wrep += st["writer_faults_reported"]; progs += st["programs"]; nbytes += st["stream_bytes"]
            store_nil += st["store_nil"]
            cut_differs += st["cut_differs"]
    gh = r["gh"]
    for k, rec in enumerate(store_nil[:3]):
        d = os.path.join(scratch(), "wf%d" % k)
        os.makedirs(d, exist_ok=True)
        json.dump(rec, open(os.path.join(d, "wf.json"), "w"))
        p = run([gh, "grb-writer-replay", "-in", "wf.json"], cwd=d)
        again = json.loads(p.stdout.split("STATS ", 1)[1])["store_nil_count"]
        if again == 0:
            r["unreproduced"] += 1
            continue
        r["violations"] += 1
        os.makedirs(os.path.join(VERIF, "replays"), exist_ok=True)
        path = os.path.join(VERIF, "replays", "C12-%s-%d-writer%d.json" % (tier, seed, k + 1))
        json.dump({"property": "C12", "kind": "grb-writer", "fault": rec, "what": "StoreKnowledgeBaseToWriter returned nil although its writer "
                   "failed at Write call %d (of %d); %d of %d bytes were delivered" % (rec["failAt"], rec["calls"], rec["delivered"], rec["of"]),
                   "how": "./check replay " + path}, open(path, "w"), indent=1)
        print("VIOLATION property=C12 replay=%s" % path)
        print("  store reported success although the writer failed at call %d" % rec["failAt"])
        break
    for k, rec in enumerate(cut_differs[:2]):
        d = os.path.join(scratch(), "cut%d" % k)
        os.makedirs(d, exist_ok=True)
        json.dump(rec, open(os.path.join(d, "cut.json"), "w"))
        p = run([gh, "grb-cut-replay", "-in", "cut.json"], cwd=d)
        if json.loads(p.stdout.split("STATS ", 1)[1])["cut_differs_count"] == 0:
            r["unreproduced"] += 1
            continue
        r["violations"] += 1
        os.makedirs(os.path.join(VERIF, "replays"), exist_ok=True)
        path = os.path.join(VERIF, "replays", "C12-%s-%d-cut%d.json" % (tier, seed, k + 1))
        json.dump({"property": "C12", "kind": "grb-cut", "fault": rec, "what": "the stream cut at byte %d of %d loads without error into a knowledge base "
                   "that is not the stored one (Catalog.Equals)" % (rec["cut"], rec["of"]), "how": "./check replay " + path}, open(path, "w"), indent=1)
        print("VIOLATION property=C12 replay=%s" % path)
        print("  stream cut at byte %d of %d loaded without error, but not into the stored knowledge base" % (rec["cut"], rec["of"]))
        break
    lib = library_family.check("C12")
    r["violations"] += lib["violations"]
    r["unreproduced"] += lib["unreproduced"]
    # (4) the sibling pairs of spec/GrlSiblings.tla (every shape of atom, selector, constant and operator) stored and loaded: what a
    # rule does after the round trip is what the model computes for it alone
    import cases_family
    exp = cases_family.export_cases(60, "GrlSiblings.tla", "MCSiblings.cfg")
    sstats, smms, slines = cases_family.replay_all(r["gh"], "sib-replay", exp, chunks=8)
    smms = [m for m in smms if "stored and loaded" in m.get("config", "")]
    sv, su, _ = cases_family.report("C12", tier, seed, r["gh"], "sib-replay", smms,
                                    key_of=lambda m: (m["fam"], m["config"], m["what"].split()[0]), case_of=lambda m: m["line"])
    r["violations"] += sv
    r["unreproduced"] += su
    r["cov"]["sibling_pairs_stored_and_loaded"] = {"pairs": exp["n"], "knowledge_bases_stored_and_loaded": 4 * exp["n"], "disagreements": len(smms)}
    cov = r["cov"]
    cov["fault_points"] = {"rule_sets": progs, "stream_bytes": nbytes, "truncation_offsets_tried": cuts, "refused": rejected,
                           "prefixes_that_loaded": loaded, "writer_faults_tried": wtried, "writer_faults_reported_by_store": wrep}
    cov["library_histories"] = {k: lib["cov"][k] for k in ("states", "transitions", "traces_validated_against_impl", "configs", "divergences")}
    cov["states"] += lib["cov"]["states"]
    cov["transitions"] += lib["cov"]["transitions"]
    cov["distinct_nontrivial"] = cov["traces_validated_against_impl"] + cuts + wtried + lib["cov"]["distinct_nontrivial"]
    cov["evaluations"] = cov["traces_validated_against_impl"] + cuts + wtried + lib["cov"]["evaluations"]
    cov["rule"] = ("(1) " + cov["rule"] + " (2) every byte offset of the stored stream of %d generated rule sets is a truncation point, every Write call "
                   "of the store a writer-fault point; all are non-trivial. (3) " % progs + lib["cov"]["rule"])
    cov["samples"] = cov["samples"][:2] + lib["cov"]["samples"][:1]
    r["own_marks"] = 1 if cuts and wtried else 0
    return engine_family.finish("C12", r)


def replay_cut(path):
    rec = json.load(open(path))
    gh = build_harness()
    d = os.path.join(scratch(), "cutreplay")
    os.makedirs(d, exist_ok=True)
    json.dump(rec["fault"], open(os.path.join(d, "cut.json"), "w"))
    p = run([gh, "grb-cut-replay", "-in", "cut.json"], cwd=d)
    if json.loads(p.stdout.split("STATS ", 1)[1])["cut_differs_count"]:
        print("VIOLATION property=C12 replay=%s" % path)
        return 1
    print("not reproduced on the current tree")
    return 0


def replay_writer(path):
    rec = json.load(open(path))
    gh = build_harness()
    d = os.path.join(scratch(), "wfreplay")
    os.makedirs(d, exist_ok=True)
    json.dump(rec["fault"], open(os.path.join(d, "wf.json"), "w"))
    p = run([gh, "grb-writer-replay", "-in", "wf.json"], cwd=d)
    n = json.loads(p.stdout.split("STATS ", 1)[1])["store_nil_count"]
    if n:
        print("VIOLATION property=C12 replay=%s" % path)
        return 1
    print("not reproduced on the current tree")
    return 0
