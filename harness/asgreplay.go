package main

// C04: replays the assignment cases TLC exports from spec/GrlAssign.tla: one rule whose action list is the
// case's assignments is executed on a fact holding every location of the model (Go struct with fields of every
// width, pointer, slices, maps; a JSON fact; top-level context variables) and the WHOLE fact is compared with
// the store the model expects - so a write to a wrong place or a changed neighbour shows as well.

import (
	"bufio"
	"bytes"
	"encoding/json"
	"flag"
	"fmt"
	"math/big"
	"os"
	"reflect"
	"strings"
	"time"

	"github.com/hyperjumptech/grule-rule-engine/ast"
	"github.com/hyperjumptech/grule-rule-engine/builder"
	"github.com/hyperjumptech/grule-rule-engine/engine"
	"github.com/hyperjumptech/grule-rule-engine/model"
	"github.com/hyperjumptech/grule-rule-engine/pkg"
)

type AsgInner struct {
	I64 int64
	F64 float64
	S   string
	I8  int8
	U16 uint16
	B   bool
	T   time.Time
}

type AsgFact struct {
	I8  int8
	I16 int16
	I32 int32
	I64 int64
	I   int
	U8  uint8
	U16 uint16
	U32 uint32
	U64 uint64
	U   uint
	F32 float32
	F64 float64
	S   string
	B   bool
	P   *AsgInner
	PI  *int64
	PF  *float64
	AI  []int64
	AF  []float64
	A8  []int8
	AU  []uint16
	AS  []string
	MI  map[string]int64
	MF  map[string]float64
	MS  map[string]string
	AV  []uint64
	MU  map[string]uint64
	T   time.Time
}

// bigM scales the 64-bit integer places of a "scaled" case beyond 2^53 (the model's algebra is linear there).
var bigM = new(big.Int).Add(new(big.Int).Lsh(big.NewInt(1), 53), big.NewInt(1))

var bigLocs = map[string]bool{"F.I64": true, "F.I": true, "F.U64": true, "F.U": true, "F.P.I64": true, "F.PI": true, "F.AI[0]": true, "F.AI[1]": true,
	"F.AV[0]": true, "F.AV[1]": true, "F.MI[a]": true, "F.MI[b]": true, "F.MU[a]": true, "N": true}

func asgTime(k int64) time.Time { return time.Date(2020, 1, 1, 0, 0, int(k), 0, time.Local) }

func newAsgFact(scale int64) *AsgFact {
	pi, pf := int64(30), float64(4.5)
	f := newAsgFact0(pi, pf)
	if scale == 1 {
		m := bigM.Int64()
		um := uint64(m)
		f.I64 *= m
		f.I *= int(m)
		f.U64 *= um
		f.U *= uint(um)
		f.P.I64 *= m
		*f.PI *= m
		f.AI[0] *= m
		f.AI[1] *= m
		f.AV[0] *= um
		f.AV[1] *= um
		f.MI["a"] *= m
		f.MI["b"] *= m
		f.MU["a"] *= um
	}
	return f
}

func newAsgFact0(pi int64, pf float64) *AsgFact {
	return &AsgFact{AV: []uint64{44, 45}, MU: map[string]uint64{"a": 52}, T: asgTime(1), I8: 5, I16: 6, I32: 7, I64: 8, I: 9, U8: 10, U16: 11, U32: 12, U64: 13, U: 14, F32: 1.5, F64: 2.5, S: "s", B: true,
		P: &AsgInner{I64: 20, F64: 3.5, S: "p", I8: 21, U16: 22, B: false, T: asgTime(2)}, PI: &pi, PF: &pf,
		AI: []int64{40, 41}, AF: []float64{0.25, 5.5}, A8: []int8{42, 1}, AU: []uint16{2, 43}, AS: []string{"e", "f"},
		MI: map[string]int64{"a": 50, "b": 51}, MF: map[string]float64{"a": 6.5}, MS: map[string]string{"a": "m"}}
}

const asgJSON = `{"n": 60, "s": "j", "b": true, "o": {"n": 61}, "a": [5, 62]}`

type avalue struct {
	T string `json:"t"`
	N int64  `json:"n"`
	D int64  `json:"d"`
	S string `json:"s"`
	V bool   `json:"v"`
}

func (v avalue) text(scale int64) string {
	switch v.T {
	case "t":
		return fmt.Sprintf("MakeTime(2020, 1, 1, 0, 0, %d)", v.N)
	case "i":
		if scale == 1 {
			return new(big.Int).Mul(big.NewInt(v.N), bigM).String()
		}
		return fmt.Sprint(v.N)
	case "r":
		f := float64(v.N) / float64(v.D)
		s := fmt.Sprint(f)
		if !strings.ContainsAny(s, ".e") {
			s += ".0"
		}
		return s
	case "s":
		return fmt.Sprintf("%q", v.S)
	case "b":
		return fmt.Sprint(v.V)
	}
	panic("value " + v.T)
}

type arhs struct {
	K  string `json:"k"`
	V  avalue `json:"v"`
	N  string `json:"n"`
	Op string `json:"op"`
	C  avalue `json:"c"`
}

type aact struct {
	T    string `json:"t"`
	Form string `json:"form"`
	Rhs  arhs   `json:"rhs"`
}

type asgCase struct {
	Fam   string `json:"fam"`
	Scale int64  `json:"scale"`
	Acts  []aact `json:"acts"`
	Want  struct {
		Err   bool              `json:"err"`
		Store map[string]avalue `json:"store"`
	} `json:"want"`
}

func locPath(n string) string {
	// F.MI[a] -> F.MI["a"]
	if i := strings.Index(n, "["); i >= 0 && strings.HasPrefix(n, "F.M") {
		return n[:i] + `["` + n[i+1:len(n)-1] + `"]`
	}
	return n
}

var formText = map[string]string{"set": "=", "add": "+=", "sub": "-=", "mul": "*=", "div": "/="}

func (r arhs) grl(scale int64) string {
	switch r.K {
	case "c":
		return r.V.text(scale)
	case "r":
		return locPath(r.N)
	case "x":
		return "(" + locPath(r.N) + " " + opSym[r.Op] + " " + r.C.text(scale) + ")"
	}
	panic("rhs " + r.K)
}

// readLoc returns the current value at a model location as (rational | string | bool, Go kind).
func readLoc(n string, f *AsgFact, dc ast.IDataContext) (interface{}, reflect.Kind, error) {
	var v reflect.Value
	switch {
	case strings.HasPrefix(n, "J."):
		var node model.ValueNode = dc.Get("J")
		for _, part := range strings.Split(n[2:], ".") {
			name, idx := part, -1
			if i := strings.Index(part, "["); i >= 0 {
				name = part[:i]
				fmt.Sscanf(part[i:], "[%d]", &idx)
			}
			var err error
			node, err = node.GetChildNodeByField(name)
			if err != nil {
				return nil, 0, err
			}
			if idx >= 0 {
				node, err = node.GetChildNodeByIndex(idx)
				if err != nil {
					return nil, 0, err
				}
			}
		}
		v = node.Value()
	case !strings.HasPrefix(n, "F."):
		node := dc.Get(n)
		if node == nil {
			return nil, 0, fmt.Errorf("context variable %s is gone", n)
		}
		v = node.Value()
	default:
		v = reflect.ValueOf(f).Elem()
		for _, part := range strings.Split(n[2:], ".") {
			name, sel := part, ""
			if i := strings.Index(part, "["); i >= 0 {
				name, sel = part[:i], part[i+1:len(part)-1]
			}
			for v.Kind() == reflect.Ptr {
				v = v.Elem()
			}
			v = v.FieldByName(name)
			if sel != "" {
				if v.Kind() == reflect.Map {
					v = v.MapIndex(reflect.ValueOf(sel))
					if !v.IsValid() {
						return nil, 0, fmt.Errorf("map entry %s is gone", n)
					}
				} else {
					var idx int
					fmt.Sscan(sel, &idx)
					v = v.Index(idx)
				}
			}
		}
	}
	for v.Kind() == reflect.Ptr || v.Kind() == reflect.Interface {
		v = v.Elem()
	}
	switch v.Kind() {
	case reflect.Int, reflect.Int8, reflect.Int16, reflect.Int32, reflect.Int64:
		return new(big.Rat).SetInt64(v.Int()), v.Kind(), nil
	case reflect.Uint, reflect.Uint8, reflect.Uint16, reflect.Uint32, reflect.Uint64:
		return new(big.Rat).SetInt(new(big.Int).SetUint64(v.Uint())), v.Kind(), nil
	case reflect.Float32, reflect.Float64:
		r := new(big.Rat)
		if r.SetFloat64(v.Float()) == nil {
			return nil, 0, fmt.Errorf("%s is not finite", n)
		}
		return r, v.Kind(), nil
	case reflect.String:
		return v.String(), v.Kind(), nil
	case reflect.Bool:
		return v.Bool(), v.Kind(), nil
	case reflect.Struct:
		if t, isTime := v.Interface().(time.Time); isTime {
			return t, v.Kind(), nil
		}
	}
	return nil, 0, fmt.Errorf("%s has kind %s", n, v.Kind())
}

func cmdAsgReplay(args []string) {
	fs := flag.NewFlagSet("asg-replay", flag.ExitOnError)
	in := fs.String("in", "cases.ndjson", "cases exported by TLC")
	out := fs.String("out", "mismatch.ndjson", "disagreements")
	fs.Parse(args)
	f, err := os.Open(*in)
	must(err)
	defer f.Close()
	of, err := os.Create(*out)
	must(err)
	defer of.Close()
	w := bufio.NewWriter(of)
	defer w.Flush()
	sc := bufio.NewScanner(f)
	sc.Buffer(make([]byte, 1<<20), 1<<24)
	n, bad, compared := 0, 0, 0
	fams := map[string]int{}
	for sc.Scan() {
		line := bytes.TrimSpace(sc.Bytes())
		if len(line) == 0 {
			continue
		}
		var c asgCase
		must(json.Unmarshal(line, &c))
		raw := append(json.RawMessage{}, line...)
		n++
		fams[c.Fam]++
		var acts []string
		for _, a := range c.Acts {
			acts = append(acts, locPath(a.T)+" "+formText[a.Form]+" "+a.Rhs.grl(c.Scale)+";")
		}
		grl := "rule A { when true then " + strings.Join(acts, " ") + ` Retract("A"); }`
		report := func(what string, want, got interface{}) {
			bad++
			b, _ := json.Marshal(J{"line": raw, "fam": c.Fam, "grl": grl, "what": what, "want": want, "got": got})
			w.Write(b)
			w.WriteByte('\n')
		}
		lib := ast.NewKnowledgeLibrary()
		if err := builder.NewRuleBuilder(lib).BuildRuleFromResource("a", "1", pkg.NewBytesResource([]byte(grl))); err != nil {
			report("build", "accepted", err.Error())
			continue
		}
		kb, err := lib.NewKnowledgeBaseInstance("a", "1")
		if err != nil {
			report("instantiate", "instance", err.Error())
			continue
		}
		fact := newAsgFact(c.Scale)
		dc := ast.NewDataContext()
		dc.Add("F", fact)
		must(dc.AddJSON("J", []byte(asgJSON)))
		if c.Scale == 1 {
			dc.Add("N", 70*bigM.Int64())
		} else {
			dc.Add("N", int64(70))
		}
		dc.Add("Q", float64(7.5))
		dc.Add("T", "t")
		err = (&engine.GruleEngine{MaxCycle: 3}).Execute(dc, kb)
		if (err != nil) != c.Want.Err {
			got := "nil"
			if err != nil {
				got = err.Error()
			}
			report("execute result", map[bool]string{true: "an error", false: "nil"}[c.Want.Err], got)
			continue
		}
		for loc, want := range c.Want.Store {
			compared++
			got, kind, err := readLoc(loc, fact, dc)
			if err != nil {
				report("read "+loc, want, err.Error())
				break
			}
			ok := false
			switch want.T {
			case "i", "r":
				if r, isNum := got.(*big.Rat); isNum {
					d := want.D
					if want.T == "i" {
						d = 1
					}
					wr := big.NewRat(want.N, d)
					if c.Scale == 1 && bigLocs[loc] {
						wr.Mul(wr, new(big.Rat).SetInt(bigM))
					}
					ok = r.Cmp(wr) == 0
					// a context variable keeps the kind of the stored value
					if ok && !strings.Contains(loc, ".") {
						isFloat := kind == reflect.Float32 || kind == reflect.Float64
						ok = isFloat == (want.T == "r")
					}
				}
			case "t":
				t, isTime := got.(time.Time)
				ok = isTime && t.Equal(asgTime(want.N))
			case "s":
				s, isStr := got.(string)
				ok = isStr && s == want.S
			case "b":
				b, isBool := got.(bool)
				ok = isBool && b == want.V
			}
			if !ok {
				g := fmt.Sprint(got)
				if r, isNum := got.(*big.Rat); isNum {
					g = r.FloatString(3) + " (" + kind.String() + ")"
				}
				report("location "+loc, want, g)
				break
			}
		}
	}
	st, _ := json.Marshal(J{"cases": n, "disagreements": bad, "locations_compared": compared, "families": fams})
	fmt.Println("STATS", string(st))
}
