package main

import (
	"bufio"
	"bytes"
	"encoding/json"
	"flag"
	"fmt"
	"math/rand"
	"os"
	"strings"
	"sync/atomic"
	"time"

	"io"

	"github.com/sirupsen/logrus"
)

func silence() {
	logrus.SetOutput(io.Discard)
	os.Setenv("TZ", "UTC")
}

func main() {
	if len(os.Args) < 2 {
		fmt.Fprintln(os.Stderr, "usage: gh <subcommand> ...")
		os.Exit(2)
	}
	silence()
	switch os.Args[1] {
	case "engine-traces":
		cmdEngineTraces(os.Args[2:])
	case "xproc-store":
		cmdXprocStore()
	case "engine-replay":
		cmdEngineReplay(os.Args[2:])
	case "lib-replay":
		cmdLibReplay(os.Args[2:])
	case "expr-replay":
		cmdExprReplay(os.Args[2:])
	case "reuse-traces":
		cmdReuseTraces(os.Args[2:])
	case "pattern-traces":
		cmdPatternTraces(os.Args[2:])
	case "probe-alias":
		cmdProbeAlias(os.Args[2:])
	case "load-faults":
		cmdLoadFaults(os.Args[2:])
	case "load-child":
		cmdLoadChild(os.Args[2:])
	case "conc-replay":
		cmdConcReplay(os.Args[2:])
	case "gram-replay":
		cmdGramReplay(os.Args[2:])
	case "json-replay":
		cmdJSONReplay(os.Args[2:])
	case "asg-replay":
		cmdAsgReplay(os.Args[2:])
	case "sib-replay":
		cmdSibReplay(os.Args[2:])
	case "cmp-replay":
		cmdCmpReplay(os.Args[2:])
	case "grb-faults":
		cmdGrbFaults(os.Args[2:])
	case "grb-cut-replay":
		cmdGrbCutReplay(os.Args[2:])
	case "grb-writer-replay":
		cmdGrbWriterReplay(os.Args[2:])
	default:
		fmt.Fprintln(os.Stderr, "unknown subcommand", os.Args[1])
		os.Exit(2)
	}
}

// cmdEngineTraces is the E-driver: generates cases for one profile, runs them on the real engine and
// writes the ndjson trace (for TLC) and the case file (for replay).
func cmdEngineTraces(args []string) {
	fs := flag.NewFlagSet("engine-traces", flag.ExitOnError)
	profile := fs.String("profile", "core", "generator profile")
	seed := fs.Int64("seed", 1, "seed")
	n := fs.Int("n", 100, "number of cases")
	reps := fs.Int("reps", 2, "runs per case (rule order is Go map order)")
	out := fs.String("out", "trace.ndjson", "trace file")
	casesOut := fs.String("cases", "cases.ndjson", "case file (replay information)")
	mode := fs.String("mode", "exec", "exec | fetch | mixed")
	variants := fs.String("variants", "fresh,reloaded,second,reloaded2,multi", "instance variants")
	calls := fs.Int("calls", 1, "maximum number of calls on one instance")
	cancel := fs.Bool("cancel", false, "sweep cancellation points")
	flagP := fs.Float64("flagp", 0.0, "probability of ReturnErrOnFailedRuleEvaluation")
	nestP := fs.Float64("nest", 0.0, "probability that a fact method of the call runs another rule set on the same engine value")
	shadowP := fs.Float64("shadow", 0.0, "probability that the first call is repeated without listeners on a fresh instance")
	maxcyc := fs.Int("maxcycle", 8, "upper bound of MaxCycle")
	listeners := fs.Int("listeners", 1, "maximum number of listeners")
	idBase := fs.Int("idbase", 0, "first trace id")
	fs.Parse(args)

	p, ok := profiles[*profile]
	if !ok {
		fmt.Fprintln(os.Stderr, "unknown profile", *profile)
		os.Exit(2)
	}
	r := rand.New(rand.NewSource(*seed))
	g := &Gen{r: r, p: p}
	tf, err := os.Create(*out)
	must(err)
	defer tf.Close()
	tw := bufio.NewWriterSize(tf, 1<<20)
	defer tw.Flush()
	cf, err := os.Create(*casesOut)
	must(err)
	defer cf.Close()
	cw := bufio.NewWriterSize(cf, 1<<20)
	defer cw.Flush()
	vs := strings.Split(*variants, ",")
	id := *idBase
	stats := J{"cases": 0, "runs": 0, "dropped_big": 0, "setup_failed": 0, "events": 0}
	cnt := func(k string, d int) { stats[k] = stats[k].(int) + d }
	for i := 0; i < *n; i++ {
		prog := g.Program()
		rules, _ := json.Marshal(prog.JS())
		c := &Case{GRL: prog.GRL(), JSONRules: prog.JSONText(), Parts: prog.Parts(2 + r.Intn(2)), RulesJS: rules, Variant: vs[r.Intn(len(vs))], Profile: p.Name, Listener: 1 + r.Intn(*listeners)}
		c.Other = g.World()
		c.Counted = json.RawMessage(`{"k":"none"}`)
		if p.OneHeavy && g.heavy != nil {
			c.Counted, _ = json.Marshal(g.heavy.JS())
		}
		for _, ru := range prog.Rules {
			if ru.Removed {
				c.Removed = append(c.Removed, ru.Name)
			}
		}
		nc := 1 + r.Intn(*calls)
		for k := 0; k < nc; k++ {
			cc := CallCfg{Mode: "exec", World: g.World(), Max: uint64(r.Intn(*maxcyc + 1)), Flag: r.Float64() < *flagP, CancelAt: -1, UseCtx: r.Intn(2) == 0}
			if *mode == "fetch" || (*mode == "mixed" && r.Intn(3) == 0) {
				cc.Mode = "fetch"
			}
			if k > 0 && cc.World.HasN && !assignsTop(prog) && r.Intn(4) == 0 {
				cc.World.HasN = false // an optional fact that this call's data context does not hold: rules reading it cannot be evaluated
			}
			if k == 0 && r.Float64() < *shadowP {
				cc.Shadow = true
			}
			if r.Float64() < *nestP {
				cc.NestAt = 1 + r.Intn(3)
			}
			if cc.UseCtx && r.Intn(3) == 0 {
				cc.LateTimer = true
			}
			c.Calls = append(c.Calls, cc)
		}
		cnt("cases", 1)
		if atomic.LoadInt32(&hangs) >= 6 {
			break
		}
		runOne := func(c *Case) int {
			c.ID = id
			id++
			var buf bytes.Buffer
			em := NewEmitter(&buf)
			err := RunCase(c, em, 20*time.Second)
			em.Flush()
			cnt("runs", 1)
			if em.big {
				cnt("dropped_big", 1)
				return em.n
			}
			if err != nil {
				cnt("setup_failed", 1)
			}
			tw.Write(buf.Bytes())
			cb, _ := json.Marshal(c)
			cw.Write(cb)
			cw.WriteByte('\n')
			cnt("events", em.n)
			return em.n
		}
		var sites int
		for k := 0; k < *reps; k++ {
			sites = runOne(c)
		}
		if *cancel {
			// cancel at every observable point of the (last) call: the number of events of an uncancelled
			// run bounds the number of points
			last := len(c.Calls) - 1
			step := 1
			if sites > 400 {
				step = sites / 400 // (a run that long is sampled: 400 points)
			}
			for s := 0; s <= sites+1; s += step {
				c2 := *c
				c2.Calls = append([]CallCfg{}, c.Calls...)
				c2.Calls[last].CancelAt = s
				switch r.Intn(4) { // the kind of context the caller hands in
				case 0:
					c2.Calls[last].FarDeadline = true
				case 1:
					c2.Calls[last].Foreign = true
				case 2:
					c2.Calls[last].Cause = true
				}
				runOne(&c2)
				if s >= 2 && r.Intn(2) == 0 {
					// the same cancellation point, after a user method ran other rules on the same engine value
					c4 := *c
					c4.Calls = append([]CallCfg{}, c.Calls...)
					c4.Calls[last].CancelAt = s
					c4.Calls[last].NestAt = 1 + r.Intn(2)
					runOne(&c4)
				}
			}
			c3 := *c
			c3.Calls = append([]CallCfg{}, c.Calls...)
			c3.Calls[last].Deadline = true
			runOne(&c3)
			// ... and before every look the engine takes at the context (a look is no observable event: about two per evaluated rule)
			for k := 1; k <= 2*sites+4 && k <= 800; k++ {
				c5 := *c
				c5.Calls = append([]CallCfg{}, c.Calls...)
				c5.Calls[last].LookAt = k
				c5.Calls[last].UseCtx = true
				switch r.Intn(4) {
				case 0:
					c5.Calls[last].FarDeadline = true
				case 1:
					c5.Calls[last].Foreign = true
				case 2:
					c5.Calls[last].Cause = true
				}
				runOne(&c5)
			}
		}
	}
	sb, _ := json.Marshal(stats)
	fmt.Println("STATS", string(sb))
}

// assignsTop: some action assigns the top-level variable N (an assignment CREATES a missing context variable, a read of it fails:
// the optional-fact variation is kept to programs that only read it).
func assignsTop(p *Program) bool {
	for _, ru := range p.Rules {
		for _, a := range ru.Then {
			if a.Kind == "asg" && a.Path != nil && a.Path.GRL() == "N" {
				return true
			}
		}
	}
	return false
}

// cmdEngineReplay re-runs the cases of a case file (used to confirm a flagged trace in a fresh process).
func cmdEngineReplay(args []string) {
	fs := flag.NewFlagSet("engine-replay", flag.ExitOnError)
	in := fs.String("cases", "cases.ndjson", "case file")
	out := fs.String("out", "trace.ndjson", "trace file")
	reps := fs.Int("reps", 1, "runs per case")
	fs.Parse(args)
	f, err := os.Open(*in)
	must(err)
	defer f.Close()
	tf, err := os.Create(*out)
	must(err)
	defer tf.Close()
	em := NewEmitter(tf)
	defer em.Flush()
	sc := bufio.NewScanner(f)
	sc.Buffer(make([]byte, 1<<20), 1<<26)
	id := 0
	for sc.Scan() {
		if len(bytes.TrimSpace(sc.Bytes())) == 0 {
			continue
		}
		var c Case
		must(json.Unmarshal(sc.Bytes(), &c))
		for k := 0; k < *reps; k++ {
			c.ID = id
			id++
			RunCase(&c, em, 20*time.Second)
		}
	}
}

func must(err error) {
	if err != nil {
		fmt.Fprintln(os.Stderr, "harness error:", err)
		os.Exit(2)
	}
}
