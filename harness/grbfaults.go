package main

// C12 fault enumeration on the binary store format: every truncation offset of the stored stream of
// generated rule sets, and a writer failing at its k-th Write call for every k. A prefix that loads
// nevertheless is run like any other instance and its traces go to the monitor (it must not behave
// differently from the stored rule set); a store that reports success although its writer failed is
// recorded for the check.

import (
	"bufio"
	"bytes"
	"encoding/json"
	"flag"
	"fmt"
	"math/rand"
	"os"
	"time"

	"github.com/hyperjumptech/grule-rule-engine/ast"
	"github.com/hyperjumptech/grule-rule-engine/builder"
	"github.com/hyperjumptech/grule-rule-engine/pkg"
)

func cmdGrbFaults(args []string) {
	fs := flag.NewFlagSet("grb-faults", flag.ExitOnError)
	seed := fs.Int64("seed", 1, "seed")
	n := fs.Int("n", 3, "number of rule sets")
	out := fs.String("out", "trace.ndjson", "trace file")
	casesOut := fs.String("cases", "cases.ndjson", "case file")
	step := fs.Int("step", 1, "truncation offsets are tried every <step> bytes (1 = every offset); the last 64 always all")
	worlds := fs.Int("worlds", 4, "fact states a surviving prefix is run on")
	profile := fs.String("profile", "small", "generator profile")
	fs.Parse(args)
	r := rand.New(rand.NewSource(*seed))
	g := &Gen{r: r, p: profiles[*profile]}
	tf, err := os.Create(*out)
	must(err)
	defer tf.Close()
	tw := bufio.NewWriterSize(tf, 1<<20)
	defer tw.Flush()
	cf, err := os.Create(*casesOut)
	must(err)
	defer cf.Close()
	cw := bufio.NewWriterSize(cf, 1<<20)
	defer cw.Flush()
	stats := J{"programs": 0, "stream_bytes": 0, "cuts_tried": 0, "cuts_rejected": 0, "cuts_loaded": 0, "writes": 0,
		"writer_faults_tried": 0, "writer_faults_reported": 0, "events": 0, "runs": 0}
	cnt := func(k string, d int) { stats[k] = stats[k].(int) + d }
	storeNil := []J{}
	cutDiffers := []J{}
	id := 0
	for i := 0; i < *n; i++ {
		prog := g.Program()
		rules, _ := json.Marshal(prog.JS())
		lib := ast.NewKnowledgeLibrary()
		must(builder.NewRuleBuilder(lib).BuildRuleFromResource("kb", "1", pkg.NewBytesResource([]byte(prog.GRL()))))
		removed := []string{}
		for _, ru := range prog.Rules {
			if ru.Removed {
				removed = append(removed, ru.Name)
				lib.RemoveRuleEntry(ru.Name, "kb", "1")
			}
		}
		var ref bytes.Buffer
		cwr := &failingWriter{}
		must(lib.StoreKnowledgeBaseToWriter(&ref, "kb", "1"))
		must(lib.StoreKnowledgeBaseToWriter(cwr, "kb", "1"))
		size := ref.Len() // (map order makes two stores differ in layout but not in length)
		cnt("programs", 1)
		cnt("stream_bytes", size)
		cnt("writes", cwr.calls)
		// ---- truncation at every offset of this stream
		data := ref.Bytes()
		refKb, err := ast.NewKnowledgeLibrary().LoadKnowledgeBaseFromReader(bytes.NewReader(data), true)
		must(err)
		refCat := refKb.MakeCatalog()
		for cut := 0; cut < size; cut++ {
			if *step > 1 && cut%*step != 0 && cut < size-64 {
				continue
			}
			cnt("cuts_tried", 1)
			lib2 := ast.NewKnowledgeLibrary()
			cutKb, err := lib2.LoadKnowledgeBaseFromReader(bytes.NewReader(data[:cut]), true)
			if err != nil {
				cnt("cuts_rejected", 1)
				continue
			}
			// a prefix that loads must at least be the knowledge base the complete stream holds (node for node:
			// the stream carries the node ids), otherwise something was lost silently
			if !refCat.Equals(cutKb.MakeCatalog()) || !cutKb.MakeCatalog().Equals(refCat) {
				cutDiffers = append(cutDiffers, J{"grl": prog.GRL(), "removed": removed, "cut": cut, "of": size, "stream": data})
			}
			// the prefix loaded: it must behave like the stored rule set (the stream travels with the case for replay)
			cnt("cuts_loaded", 1)
			c := &Case{GRL: prog.GRL(), RulesJS: rules, Removed: removed, Variant: fmt.Sprintf("reloaded-cut:%d", cut), Profile: "grb", Listener: 1,
				Counted: json.RawMessage(`{"k":"none"}`), Stream: data[:cut]}
			for k := 0; k < *worlds; k++ {
				c.Calls = []CallCfg{{Mode: []string{"exec", "exec", "fetch"}[k%3], World: g.World(), Max: uint64(2 + r.Intn(6)), CancelAt: -1}}
				c.ID = id
				id++
				var buf bytes.Buffer
				em := NewEmitter(&buf)
				RunCase(c, em, 20*time.Second)
				em.Flush()
				cnt("runs", 1)
				if em.big {
					continue
				}
				tw.Write(buf.Bytes())
				cb, _ := json.Marshal(c)
				cw.Write(cb)
				cw.WriteByte('\n')
				cnt("events", em.n)
			}
		}
		// ---- a writer that fails from its k-th call on
		for k := 1; k <= cwr.calls; k++ {
			cnt("writer_faults_tried", 1)
			fw := &failingWriter{failAt: k}
			if err := lib.StoreKnowledgeBaseToWriter(fw, "kb", "1"); err != nil {
				cnt("writer_faults_reported", 1)
			} else {
				storeNil = append(storeNil, J{"grl": prog.GRL(), "removed": removed, "failAt": k, "calls": fw.calls, "delivered": fw.buf.Len(), "of": size})
			}
		}
	}
	stats["store_nil"] = storeNil
	if len(storeNil) > 5 {
		stats["store_nil"] = storeNil[:5]
	}
	stats["store_nil_count"] = len(storeNil)
	stats["cut_differs_count"] = len(cutDiffers)
	if len(cutDiffers) > 2 {
		cutDiffers = cutDiffers[:2]
	}
	stats["cut_differs"] = cutDiffers
	sb, _ := json.Marshal(stats)
	fmt.Println("STATS", string(sb))
}

// cmdGrbWriterReplay re-checks one recorded writer fault: exit status via STATS line.
func cmdGrbWriterReplay(args []string) {
	fs := flag.NewFlagSet("grb-writer-replay", flag.ExitOnError)
	in := fs.String("in", "wf.json", "recorded fault {grl, removed, failAt}")
	fs.Parse(args)
	b, err := os.ReadFile(*in)
	must(err)
	var rec struct {
		GRL     string   `json:"grl"`
		Removed []string `json:"removed"`
		FailAt  int      `json:"failAt"`
	}
	must(json.Unmarshal(b, &rec))
	bad := 0
	for rep := 0; rep < 20; rep++ {
		lib := ast.NewKnowledgeLibrary()
		must(builder.NewRuleBuilder(lib).BuildRuleFromResource("kb", "1", pkg.NewBytesResource([]byte(rec.GRL))))
		for _, n := range rec.Removed {
			lib.RemoveRuleEntry(n, "kb", "1")
		}
		cwr := &failingWriter{}
		must(lib.StoreKnowledgeBaseToWriter(cwr, "kb", "1"))
		for k := 1; k <= cwr.calls; k++ {
			fw := &failingWriter{failAt: k}
			if err := lib.StoreKnowledgeBaseToWriter(fw, "kb", "1"); err == nil {
				bad++
			}
		}
	}
	fmt.Printf("STATS {\"store_nil_count\": %d}\n", bad)
}

// cmdGrbCutReplay re-checks one recorded truncation: the prefix of the recorded stream must be refused or be
// the same knowledge base as the complete stream.
func cmdGrbCutReplay(args []string) {
	fs := flag.NewFlagSet("grb-cut-replay", flag.ExitOnError)
	in := fs.String("in", "cut.json", "recorded truncation {stream, cut}")
	fs.Parse(args)
	b, err := os.ReadFile(*in)
	must(err)
	var rec struct {
		Stream []byte `json:"stream"`
		Cut    int    `json:"cut"`
	}
	must(json.Unmarshal(b, &rec))
	refKb, err := ast.NewKnowledgeLibrary().LoadKnowledgeBaseFromReader(bytes.NewReader(rec.Stream), true)
	must(err)
	bad := 0
	cutKb, err := ast.NewKnowledgeLibrary().LoadKnowledgeBaseFromReader(bytes.NewReader(rec.Stream[:rec.Cut]), true)
	if err == nil && (!refKb.MakeCatalog().Equals(cutKb.MakeCatalog()) || !cutKb.MakeCatalog().Equals(refKb.MakeCatalog())) {
		bad = 1
	}
	fmt.Printf("STATS {\"cut_differs_count\": %d}\n", bad)
}
