package main

// Replays the histories TLC exports from spec/GruleLibrary.tla on the real library (spec -> code direction)
// and compares, after every step, the operation's outcome and the projection of the abstract state:
// which rules are in force (and under which text) in every knowledge base and in every instance.

import (
	"bufio"
	"bytes"
	"encoding/json"
	"flag"
	"fmt"
	"os"
	"sort"
	"strings"
	"time"

	"github.com/hyperjumptech/grule-rule-engine/ast"
	"github.com/hyperjumptech/grule-rule-engine/builder"
	"github.com/hyperjumptech/grule-rule-engine/engine"
	"github.com/hyperjumptech/grule-rule-engine/pkg"
)

type LStep struct {
	Op   string `json:"op"`
	Kb   string `json:"kb"`
	Name string `json:"name"`
	Text int    `json:"text"`
	Inst int    `json:"inst"`
	Ow   bool   `json:"ow"`
	Ok   bool   `json:"ok"`
	Proj struct {
		Lib   map[string]map[string]int `json:"lib"`
		Built map[string]bool           `json:"built"`
		Insts []map[string]int          `json:"insts"`
	} `json:"proj"`
}

type LFact struct {
	X, Y, Z int64
	A, Bv   int64
	S       string
	// one field per (rule, text variant), always 0: a text mentions a variable that no other text mentions
	WA1, WA2, WB1, WB2, WC1, WC2 int64
}

// ruleText gives the GRL of rule `name` in text variant t. The variants of one name differ in condition,
// action, description and salience, and all rules share the sub-expression F.Z == 0.
func ruleText(name string, t int) string {
	switch name {
	case "A":
		return fmt.Sprintf(`rule A "A%d" salience %d { when F.X == %d && F.Z == 0 && F.WA%d == 0 then F.A = %d; Retract("A"); }`, t, t, t, t, t)
	case "B":
		return fmt.Sprintf(`rule B "B%d" salience %d { when F.Y == %d && F.Z == 0 && F.WB%d == 0 then F.Bv = %d; Retract("B"); }`, t, t+2, t, t, t)
	case "C":
		return fmt.Sprintf(`rule C "C%d" salience %d { when F.X == %d && F.Y == %d && F.WC%d == 0 then F.A = %d; F.Bv = %d; Retract("C"); }`, t, t+4, t, t, t, t+10, t+10)
	}
	panic("unknown rule " + name)
}

var badSyntax = []string{
	`rule Z { when F.X == 1 && F.Z == 0 then F.A = ; }`,
	`rule Z { when F.X == then F.A = 1; }`,
	`rule Z { when F.X == 1 && F.Z == 0 then F.A = 5; `,
	`rule Z { when F.X == 1 # && F.Z == 0 then F.A = 5; }`,
	`rule A2 { when F.Y == 2 && F.Z == 0 then F.A = 5 }`,
	`rule when { when F.X == 1 then F.A = 5; }`,
	`rule Z { when F.X == 1 && F.Z == 0 then F.A = 5; } }`,
	`rule Z { when then F.A = 5; }`,
}
var badLiteral = []string{
	`rule Z { when F.X == 99999999999999999999 && F.Z == 0 then F.A = 5; }`,
	`rule Z salience 2147483648 { when F.X == 1 && F.Z == 0 then F.A = 5; }`,
	`rule Z { when F.X == 1 && F.Z == 0 then F.A = 1e999; }`,
	`rule Z salience -2147483649 { when F.Y == 2 && F.Z == 0 then F.A = 5; }`,
	`rule Z { when F.S != "\q" && F.Z == 0 then F.A = 5; }`,
	`rule Z { when F.X == 1 && F.Z == 0 then F.S = 'it\'s \x'; }`,
}

type probeResult struct {
	Matched [2][]string // names matching on probe 1 / 2 (sorted)
	Fired   [2][2]int64 // (A, Bv) after Execute on probe 1 / 2
	Meta    []string
	Err     string
}

func probes() [2]*LFact { return [2]*LFact{{X: 1, Y: 1}, {X: 2, Y: 2}} }

func probe(kb *ast.KnowledgeBase) probeResult {
	var pr probeResult
	for i, f := range probes() {
		dc := ast.NewDataContext()
		dc.Add("F", f)
		// every rule of the vocabulary evaluates on the probes: a failing evaluation means a broken rule got in
		eng := &engine.GruleEngine{MaxCycle: 20, ReturnErrOnFailedRuleEvaluation: true}
		res, err := eng.FetchMatchingRules(dc, kb)
		if err != nil {
			pr.Err = "fetch: " + err.Error()
			return pr
		}
		names := []string{}
		for _, r := range res {
			names = append(names, r.RuleName)
			pr.Meta = append(pr.Meta, fmt.Sprintf("%s/%s/%d", r.RuleName, r.RuleDescription, r.Salience))
		}
		sort.Strings(names)
		pr.Matched[i] = names
		g := *f
		dc2 := ast.NewDataContext()
		dc2.Add("F", &g)
		if err := eng.Execute(dc2, kb); err != nil {
			pr.Err = "execute: " + err.Error()
			return pr
		}
		pr.Fired[i] = [2]int64{g.A, g.Bv}
	}
	sort.Strings(pr.Meta)
	return pr
}

// expected probe result for an abstract rule table name -> text (0 = not in force)
func expectProbe(rules map[string]int) probeResult {
	var pr probeResult
	for i := 0; i < 2; i++ {
		t := i + 1
		names := []string{}
		var a, b int64
		for _, n := range []string{"A", "B"} {
			if rules[n] == t {
				names = append(names, n)
				sal := t
				if n == "B" {
					sal = t + 2
				}
				pr.Meta = append(pr.Meta, fmt.Sprintf("%s/%s%d/%d", n, n, t, sal))
				if n == "A" {
					a = int64(t)
				} else {
					b = int64(t)
				}
			}
		}
		pr.Matched[i] = names
		pr.Fired[i] = [2]int64{a, b}
	}
	sort.Strings(pr.Meta)
	return pr
}

func sameProbe(a, b probeResult) bool {
	ja, _ := json.Marshal(a)
	jb, _ := json.Marshal(b)
	return string(ja) == string(jb)
}

type mismatch struct {
	Hist  json.RawMessage `json:"hist"`
	Step  int             `json:"step"`
	Op    string          `json:"op"`
	Kind  string          `json:"kind"`
	Where string          `json:"where"`
	Want  interface{}     `json:"want"`
	Got   interface{}     `json:"got"`
}

// replayHistory returns the first disagreement of the real library with the history, or nil.
func replayHistory(raw json.RawMessage, steps []LStep, salt int) (mm *mismatch) {
	defer func() {
		if r := recover(); r != nil {
			mm = &mismatch{Hist: raw, Step: -1, Kind: "panic", Got: fmt.Sprint(r)}
		}
	}()
	lib := ast.NewKnowledgeLibrary()
	rb := builder.NewRuleBuilder(lib)
	var insts []*ast.KnowledgeBase
	streams := map[string][]byte{}
	res := func(s string) pkg.Resource { return pkg.NewBytesResource([]byte(s)) }
	for i, st := range steps {
		var err error
		switch st.Op {
		case "build":
			err = rb.BuildRuleFromResource(st.Kb, "1", res(ruleText(st.Name, st.Text)))
		case "build2":
			err = rb.BuildRuleFromResource(st.Kb, "1", res(ruleText(st.Name, st.Text)+"\n"+ruleText(st.Name, 3-st.Text)))
		case "builddupc":
			// the duplicate next to an unrelated new rule (which never matches a probe); both orders
			comp := fmt.Sprintf(`rule Comp%d_%d { when F.X == 99 && F.Z == 0 then F.A = 9; }`, i, salt%1000)
			parts := []string{comp, ruleText(st.Name, st.Text), fmt.Sprintf(`rule Comq%d_%d { when F.Y == 98 then F.Bv = 9; }`, i, salt%1000)}
			if (i+salt)%2 == 1 {
				parts[0], parts[1] = parts[1], parts[0]
			}
			err = rb.BuildRuleFromResource(st.Kb, "1", res(strings.Join(parts, "\n")))
		case "badsyntax":
			err = rb.BuildRuleFromResource(st.Kb, "1", res(badSyntax[(i+salt)%len(badSyntax)]))
			if err != nil {
				if rep, ok := err.(*pkg.GruleErrorReporter); !ok || len(rep.Errors) == 0 {
					return &mismatch{Hist: raw, Step: i, Op: st.Op, Kind: "reporter", Want: "GruleErrorReporter with at least one entry", Got: fmt.Sprintf("%T %v", err, err)}
				}
			}
		case "badliteral":
			err = rb.BuildRuleFromResource(st.Kb, "1", res(badLiteral[(i+salt)%len(badLiteral)]))
		case "rmlib":
			lib.RemoveRuleEntry(st.Name, st.Kb, "1")
		case "rmkb":
			lib.GetKnowledgeBase(st.Kb, "1").RemoveRuleEntry(st.Name)
		case "rminst":
			insts[st.Inst-1].RemoveRuleEntry(st.Name)
		case "inst":
			var kb *ast.KnowledgeBase
			if (i+salt)%2 == 0 {
				// asking for a version that does not exist is answered with an error and changes nothing (a stuttering step)
				if none, e := lib.NewKnowledgeBaseInstance(st.Kb, "no-such-version"); e == nil || none != nil {
					return &mismatch{Hist: raw, Step: i, Op: st.Op, Kind: "unknown-version", Want: "an error", Got: "an instance"}
				}
			}
			kb, err = lib.NewKnowledgeBaseInstance(st.Kb, "1")
			if err == nil {
				insts = append(insts, kb)
			}
		case "store":
			var buf bytes.Buffer
			err = lib.StoreKnowledgeBaseToWriter(&buf, st.Kb, "1")
			if err == nil {
				streams[st.Kb] = buf.Bytes()
			}
		case "load":
			_, err = lib.LoadKnowledgeBaseFromReader(bytes.NewReader(streams[st.Kb]), st.Ow)
		default:
			panic("unknown op " + st.Op)
		}
		if (err == nil) != st.Ok {
			got := "nil"
			if err != nil {
				got = err.Error()
			}
			return &mismatch{Hist: raw, Step: i, Op: st.Op, Kind: "ret", Want: st.Ok, Got: got}
		}
		// projection: every knowledge base that exists must be instantiable and behave per its rule table
		kbs := make([]string, 0, len(st.Proj.Lib))
		for k := range st.Proj.Lib {
			kbs = append(kbs, k)
		}
		sort.Strings(kbs)
		for _, k := range kbs {
			if !st.Proj.Built[k] {
				continue
			}
			kb, err := lib.NewKnowledgeBaseInstance(k, "1")
			if err != nil {
				return &mismatch{Hist: raw, Step: i, Op: st.Op, Kind: "instantiate", Where: k, Want: "instance", Got: err.Error()}
			}
			want, got := expectProbe(st.Proj.Lib[k]), probe(kb)
			if !sameProbe(want, got) {
				return &mismatch{Hist: raw, Step: i, Op: st.Op, Kind: "proj-lib", Where: k, Want: want, Got: got}
			}
			// the blueprint can also be stored and loaded into another library without changing its meaning
			if (i+salt)%3 == 0 {
				var buf bytes.Buffer
				if err := lib.StoreKnowledgeBaseToWriter(&buf, k, "1"); err != nil {
					return &mismatch{Hist: raw, Step: i, Op: st.Op, Kind: "store", Where: k, Want: "stored", Got: err.Error()}
				}
				lib2 := ast.NewKnowledgeLibrary()
				if _, err := lib2.LoadKnowledgeBaseFromReader(&buf, false); err != nil {
					return &mismatch{Hist: raw, Step: i, Op: st.Op, Kind: "reload", Where: k, Want: "loaded", Got: err.Error()}
				}
				kb2, err := lib2.NewKnowledgeBaseInstance(k, "1")
				if err != nil {
					return &mismatch{Hist: raw, Step: i, Op: st.Op, Kind: "reload-instantiate", Where: k, Want: "instance", Got: err.Error()}
				}
				if got2 := probe(kb2); !sameProbe(want, got2) {
					return &mismatch{Hist: raw, Step: i, Op: st.Op, Kind: "proj-reloaded", Where: k, Want: want, Got: got2}
				}
			}
		}
		if len(insts) != len(st.Proj.Insts) {
			return &mismatch{Hist: raw, Step: i, Op: st.Op, Kind: "instances", Want: len(st.Proj.Insts), Got: len(insts)}
		}
		for j, kb := range insts {
			want, got := expectProbe(st.Proj.Insts[j]), probe(kb)
			if !sameProbe(want, got) {
				return &mismatch{Hist: raw, Step: i, Op: st.Op, Kind: "proj-inst", Where: fmt.Sprint(j + 1), Want: want, Got: got}
			}
		}
	}
	return nil
}

func cmdLibReplay(args []string) {
	fs := flag.NewFlagSet("lib-replay", flag.ExitOnError)
	in := fs.String("in", "hist.ndjson", "histories: one JSON array of steps per line")
	out := fs.String("out", "mismatch.ndjson", "first disagreement of each diverging history")
	salt := fs.Int("salt", 0, "varies which rejected text is used")
	fs.Parse(args)
	f, err := os.Open(*in)
	must(err)
	defer f.Close()
	of, err := os.Create(*out)
	must(err)
	defer of.Close()
	w := bufio.NewWriter(of)
	defer w.Flush()
	sc := bufio.NewScanner(f)
	sc.Buffer(make([]byte, 1<<20), 1<<26)
	n, bad, steps := 0, 0, 0
	kinds := map[string]int{}
	ops := map[string]int{}
	for sc.Scan() {
		line := bytes.TrimSpace(sc.Bytes())
		if len(line) == 0 {
			continue
		}
		var h []LStep
		must(json.Unmarshal(line, &h))
		raw := append(json.RawMessage{}, line...)
		n++
		steps += len(h)
		for _, s := range h {
			ops[s.Op]++
		}
		// (a history that does not come back - a lock left behind - is reported; the process then stops: its libraries are wedged)
		done := make(chan *mismatch, 1)
		go func() { done <- replayHistory(raw, h, *salt+n) }()
		var mm *mismatch
		hung := false
		select {
		case mm = <-done:
		case <-time.After(20 * time.Second):
			mm, hung = &mismatch{Hist: raw, Step: -1, Kind: "hang", Want: "every call returns", Got: "the history did not finish within 20 s"}, true
		}
		if mm != nil {
			bad++
			kinds[mm.Kind+"@"+mm.Op]++
			b, _ := json.Marshal(mm)
			w.Write(b)
			w.WriteByte('\n')
		}
		if hung {
			break
		}
	}
	st, _ := json.Marshal(J{"histories": n, "steps": steps, "diverging": bad, "kinds": kinds, "ops": ops})
	fmt.Println("STATS", string(st))
	_ = strings.TrimSpace
}
