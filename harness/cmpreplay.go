package main

// C19: replays the comparison cases TLC exports from spec/GrlValues.tla (the whole finite domain) on the
// real operators: pkg.Evaluate{LesserThan,Equal,...} on reflect values, and the same pairs through GRL
// conditions (facts held in interface fields, and in typed struct fields for a subset of kinds).

import (
	"bufio"
	"bytes"
	"encoding/json"
	"flag"
	"fmt"
	"math/big"
	"os"
	"reflect"
	"sort"
	"strings"
	"time"

	"github.com/hyperjumptech/grule-rule-engine/ast"
	"github.com/hyperjumptech/grule-rule-engine/builder"
	"github.com/hyperjumptech/grule-rule-engine/engine"
	"github.com/hyperjumptech/grule-rule-engine/pkg"
)

type cmpCase struct {
	C struct {
		Fam string `json:"fam"`
		Lk  string `json:"lk"`
		Lw  string `json:"lw"`
		Lv  string `json:"lv"`
		Lf  string `json:"lf"`
		Rk  string `json:"rk"`
		Rw  string `json:"rw"`
		Rv  string `json:"rv"`
		Rf  string `json:"rf"`
	} `json:"c"`
	Want  map[string]bool `json:"want"`
	Lrank int             `json:"lrank"`
	Rrank int             `json:"rrank"`
}

func pow2(n uint) *big.Rat       { return new(big.Rat).SetInt(new(big.Int).Lsh(big.NewInt(1), n)) }
func ri(n int64) *big.Rat        { return new(big.Rat).SetInt64(n) }
func sub(a, b *big.Rat) *big.Rat { return new(big.Rat).Sub(a, b) }
func neg(a *big.Rat) *big.Rat    { return new(big.Rat).Neg(a) }

// the harness's own reading of the symbolic value names (checked against the model's ranks)
var numVal = map[string]*big.Rat{
	"-2^63": neg(pow2(63)), "-2^53": neg(pow2(53)), "-2^31-1": sub(neg(pow2(31)), ri(1)), "-2^31": neg(pow2(31)),
	"-32769": ri(-32769), "-32768": ri(-32768), "-129": ri(-129), "-128": ri(-128), "-3/2": big.NewRat(-3, 2), "-1": ri(-1),
	"-1/2": big.NewRat(-1, 2), "0": ri(0), "1/2": big.NewRat(1, 2), "1": ri(1), "3/2": big.NewRat(3, 2), "127": ri(127), "128": ri(128),
	"255": ri(255), "256": ri(256), "32767": ri(32767), "32768": ri(32768), "65535": ri(65535), "65536": ri(65536),
	"2^31-1": sub(pow2(31), ri(1)), "2^31": pow2(31), "2^32-1": sub(pow2(32), ri(1)), "2^32": pow2(32), "2^53": pow2(53),
	"2^63-1": sub(pow2(63), ri(1)),
}

func numOf(kind, name string) (interface{}, error) {
	r, ok := numVal[name]
	if !ok {
		return nil, fmt.Errorf("unknown value name %q", name)
	}
	if strings.HasPrefix(kind, "float") {
		f, exact := r.Float64()
		if !exact {
			return nil, fmt.Errorf("%s is not exactly a float64", name)
		}
		if kind == "float32" {
			if float64(float32(f)) != f {
				return nil, fmt.Errorf("%s is not exactly a float32", name)
			}
			return float32(f), nil
		}
		return f, nil
	}
	if !r.IsInt() {
		return nil, fmt.Errorf("%s is not an integer", name)
	}
	n := r.Num()
	if strings.HasPrefix(kind, "uint") {
		if !n.IsUint64() {
			return nil, fmt.Errorf("%s does not fit %s", name, kind)
		}
		u := n.Uint64()
		switch kind {
		case "uint8":
			if u > 255 {
				return nil, fmt.Errorf("%s does not fit uint8", name)
			}
			return uint8(u), nil
		case "uint16":
			if u > 65535 {
				return nil, fmt.Errorf("%s does not fit uint16", name)
			}
			return uint16(u), nil
		case "uint32":
			if u > 1<<32-1 {
				return nil, fmt.Errorf("%s does not fit uint32", name)
			}
			return uint32(u), nil
		case "uint64":
			return u, nil
		case "uint":
			return uint(u), nil
		}
	}
	if !n.IsInt64() {
		return nil, fmt.Errorf("%s does not fit int64", name)
	}
	i := n.Int64()
	switch kind {
	case "int8":
		if int64(int8(i)) != i {
			return nil, fmt.Errorf("%s does not fit int8", name)
		}
		return int8(i), nil
	case "int16":
		if int64(int16(i)) != i {
			return nil, fmt.Errorf("%s does not fit int16", name)
		}
		return int16(i), nil
	case "int32":
		if int64(int32(i)) != i {
			return nil, fmt.Errorf("%s does not fit int32", name)
		}
		return int32(i), nil
	case "int64":
		return i, nil
	case "int":
		return int(i), nil
	}
	return nil, fmt.Errorf("unknown kind %s", kind)
}

var timeBase = time.Now() // carries a monotonic reading
var zone = time.FixedZone("UTC+7", 7*3600)

func timeOf(form, inst string) time.Time {
	k := map[string]int{"t0": 0, "t1": 1, "t2": 2}[inst]
	// t1 lies 400 ms after t0 (the same wall-clock second unless a second boundary falls between them), t2 an hour later
	t := timeBase.Truncate(time.Second).Add(100*time.Millisecond + []time.Duration{0, 400 * time.Millisecond, time.Hour}[k])
	switch form {
	case "utc":
		return t.Round(0).UTC()
	case "zone":
		return t.Round(0).In(zone)
	case "mono":
		return t
	case "monozone":
		return t.In(zone)
	}
	panic("time form " + form)
}

// wrap puts the value behind a pointer / leaves it; the reflect value the operators get is built by valueOf
func wrapPtr(v interface{}) interface{} {
	p := reflect.New(reflect.TypeOf(v))
	p.Elem().Set(reflect.ValueOf(v))
	return p.Interface()
}

type CmpFact struct {
	L, R interface{}
	// typed fields for the GRL route with plain operands
	I64a, I64b int64
	I32a       int32
	Ia         int
	U8a, U8b   uint8
	F64a, F64b float64
	Sa, Sb     string
	Ba, Bb     bool
	Ta, Tb     time.Time
}

var opNames = []string{"lt", "eq", "gt", "le", "ge", "ne"}
var opText = map[string]string{"lt": "<", "eq": "==", "gt": ">", "le": "<=", "ge": ">=", "ne": "!="}
var opFunc = map[string]func(a, b reflect.Value) (reflect.Value, error){"lt": pkg.EvaluateLesserThan, "eq": pkg.EvaluateEqual,
	"gt": pkg.EvaluateGreaterThan, "le": pkg.EvaluateLesserThanEqual, "ge": pkg.EvaluateGreaterThanEqual, "ne": pkg.EvaluateNotEqual}

// typed field to use for a (kind, side) in the GRL route, "" if none
func typedField(fam, kind string, left bool) string {
	side := "b"
	if left {
		side = "a"
	}
	switch {
	case fam == "num" && kind == "int64":
		return "I64" + side
	case fam == "num" && kind == "uint8":
		return "U8" + side
	case fam == "num" && kind == "float64":
		return "F64" + side
	case fam == "num" && kind == "int32" && left:
		return "I32a"
	case fam == "num" && kind == "int" && left:
		return "Ia"
	case fam == "str":
		return "S" + side
	case fam == "bool":
		return "B" + side
	case fam == "time":
		return "T" + side
	}
	return ""
}

func cmdCmpReplay(args []string) {
	fs := flag.NewFlagSet("cmp-replay", flag.ExitOnError)
	in := fs.String("in", "cases.ndjson", "cases exported by TLC")
	out := fs.String("out", "mismatch.ndjson", "disagreements")
	fs.Parse(args)

	// GRL route: one knowledge base, one rule per operator and operand-field pair
	fieldsL := []string{"L", "I64a", "I32a", "Ia", "U8a", "F64a", "Sa", "Ba", "Ta"}
	fieldsR := []string{"R", "I64b", "U8b", "F64b", "Sb", "Bb", "Tb"}
	var grl strings.Builder
	for _, l := range fieldsL {
		for _, r := range fieldsR {
			if (l == "L") != (r == "R") {
				continue
			}
			for _, op := range opNames {
				fmt.Fprintf(&grl, "rule %s_%s_%s { when F.%s %s F.%s then Complete(); }\n", op, l, r, l, opText[op], r)
			}
		}
	}
	lib := ast.NewKnowledgeLibrary()
	must(builder.NewRuleBuilder(lib).BuildRuleFromResource("cmp", "1", pkg.NewBytesResource([]byte(grl.String()))))
	kb, err := lib.NewKnowledgeBaseInstance("cmp", "1")
	must(err)
	eng := &engine.GruleEngine{MaxCycle: 1}

	f, err := os.Open(*in)
	must(err)
	defer f.Close()
	of, err := os.Create(*out)
	must(err)
	defer of.Close()
	w := bufio.NewWriter(of)
	defer w.Flush()
	sc := bufio.NewScanner(f)
	sc.Buffer(make([]byte, 1<<20), 1<<24)
	n, bad, direct, viaGRL, typed := 0, 0, 0, 0, 0
	fams := map[string]int{}
	var raw json.RawMessage
	report := func(c *cmpCase, route, op string, want, got interface{}) {
		bad++
		b, _ := json.Marshal(J{"case": c.C, "line": raw, "route": route, "op": op, "want": want, "got": got})
		w.Write(b)
		w.WriteByte('\n')
	}
	for sc.Scan() {
		line := bytes.TrimSpace(sc.Bytes())
		if len(line) == 0 {
			continue
		}
		var c cmpCase
		must(json.Unmarshal(line, &c))
		raw = append(json.RawMessage{}, line...)
		n++
		fams[c.C.Fam]++
		var lv, rv interface{}
		switch c.C.Fam {
		case "num":
			var e1, e2 error
			lv, e1 = numOf(c.C.Lk, c.C.Lv)
			rv, e2 = numOf(c.C.Rk, c.C.Rv)
			if e1 != nil || e2 != nil {
				must(fmt.Errorf("model and harness disagree on the value domain: %v %v (%+v)", e1, e2, c.C))
			}
			// the harness's table must order the names exactly like the model's ranks
			if got := numVal[c.C.Lv].Cmp(numVal[c.C.Rv]); (got < 0) != (c.Lrank < c.Rrank) || (got == 0) != (c.Lrank == c.Rrank) {
				must(fmt.Errorf("value tables out of step: %s vs %s", c.C.Lv, c.C.Rv))
			}
		case "str":
			lv, rv = c.C.Lv, c.C.Rv
		case "bool":
			lv, rv = c.C.Lv == "true", c.C.Rv == "true"
		case "time":
			lv, rv = timeOf(c.C.Lf, c.C.Lv), timeOf(c.C.Rf, c.C.Rv)
		}
		mk := func(v interface{}, wrap string) reflect.Value {
			switch wrap {
			case "ptr":
				return reflect.ValueOf(wrapPtr(v))
			case "iface":
				var i interface{} = v
				return reflect.ValueOf(&i).Elem() // a reflect.Value of kind Interface
			}
			return reflect.ValueOf(v)
		}
		// route 1: the operators themselves
		for _, op := range opNames {
			want, checked := c.Want[op]
			if !checked {
				continue
			}
			res, err := opFunc[op](mk(lv, c.C.Lw), mk(rv, c.C.Rw))
			direct++
			if err != nil {
				report(&c, "pkg", op, want, "error: "+err.Error())
			} else if res.Kind() != reflect.Bool || res.Bool() != want {
				report(&c, "pkg", op, want, fmt.Sprint(res))
			}
		}
		// route 2: GRL conditions, operands in interface fields (wrapped as the case says)
		fact := &CmpFact{}
		put := func(v interface{}, wrap string) interface{} {
			if wrap == "ptr" {
				return wrapPtr(v)
			}
			return v
		}
		fact.L, fact.R = put(lv, c.C.Lw), put(rv, c.C.Rw)
		lf, rf := "", ""
		if c.C.Lw == "plain" && c.C.Rw == "plain" {
			lf, rf = typedField(c.C.Fam, c.C.Lk, true), typedField(c.C.Fam, c.C.Rk, false)
			if lf != "" && rf != "" {
				reflect.ValueOf(fact).Elem().FieldByName(lf).Set(reflect.ValueOf(lv))
				reflect.ValueOf(fact).Elem().FieldByName(rf).Set(reflect.ValueOf(rv))
			}
		}
		if n%4 == 0 || c.C.Fam != "num" || (lf != "" && rf != "") {
			dc := ast.NewDataContext()
			dc.Add("F", fact)
			res, err := eng.FetchMatchingRules(dc, kb)
			if err != nil {
				report(&c, "grl", "fetch", "no error", err.Error())
				continue
			}
			matched := map[string]bool{}
			for _, r := range res {
				matched[r.RuleName] = true
			}
			for _, op := range opNames {
				want, checked := c.Want[op]
				if !checked {
					continue
				}
				viaGRL++
				if matched[op+"_L_R"] != want {
					report(&c, "grl-interface-fields", op, want, matched[op+"_L_R"])
				}
				if lf != "" && rf != "" {
					typed++
					if matched[op+"_"+lf+"_"+rf] != want {
						report(&c, "grl-typed-fields "+lf+" "+rf, op, want, matched[op+"_"+lf+"_"+rf])
					}
				}
			}
		}
	}
	keys := []string{}
	for k := range fams {
		keys = append(keys, k)
	}
	sort.Strings(keys)
	st, _ := json.Marshal(J{"cases": n, "disagreements": bad, "operator_applications": direct, "grl_interface": viaGRL, "grl_typed": typed, "families": fams})
	fmt.Println("STATS", string(st))
}
