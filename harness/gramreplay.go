package main

// C17: replays the token-kind documents TLC exports from spec/GrlGrammar.tla (valid documents and every single
// mutation of them) on the real builder: acceptance must equal the recogniser's verdict, an accepted text must
// leave exactly the declared rules (name, description, salience), a syntax refusal must come as a
// GruleErrorReporter with at least one entry, and in both cases what was loaded before must still be there,
// instantiable, storable and behaving as before.

import (
	"bufio"
	"bytes"
	"encoding/json"
	"flag"
	"fmt"
	"os"
	"sort"
	"strings"

	"github.com/hyperjumptech/grule-rule-engine/ast"
	"github.com/hyperjumptech/grule-rule-engine/builder"
	"github.com/hyperjumptech/grule-rule-engine/engine"
	"github.com/hyperjumptech/grule-rule-engine/pkg"
)

type gramCase struct {
	Fam     string   `json:"fam"`
	Base    int      `json:"base"`
	Mut     string   `json:"mut"`
	At      int      `json:"at"`
	Toks    []string `json:"toks"`
	Accepts bool     `json:"accepts"`
	Syntax  bool     `json:"syntax"`
	Rules   []struct {
		NameAt int  `json:"nameAt"`
		Desc   bool `json:"desc"`
		DescAt int  `json:"descAt"`
		Sal    int  `json:"sal"`
		SalAt  int  `json:"salAt"`
	} `json:"rules"`
}

func pickv(vs []string, i int) string { return vs[i%len(vs)] }

// tokenText prints the representative text of a token kind at (1-based) position i.
func tokenText(toks []string, i int, firstName int) string {
	k := toks[i-1]
	switch k {
	case "name":
		if i == firstName {
			return "Same"
		}
		return fmt.Sprintf("N%d", i)
	case "samename":
		return "Same"
	case "str":
		return fmt.Sprintf(pickv([]string{`"s%d"`, `'s%d'`}, i), i)
	case "escstr":
		return `"\q"`
	case "dqstr":
		return pickv([]string{`"a""b"`, `'it''s'`, `""""`}, i)
	case "badstr":
		return `"abc`
	case "int":
		return pickv([]string{"7", "0x7", "07"}, i)
	case "wideint":
		return "3000000000"
	case "bigint":
		return "99999999999999999999"
	case "float":
		return pickv([]string{"1.5", ".5", "2e3"}, i)
	case "bool":
		return pickv([]string{"true", "FALSE", "True"}, i)
	case "nil":
		return pickv([]string{"nil", "NIL"}, i)
	case "asg":
		return pickv([]string{"=", "+=", "-=", "*=", "/="}, i)
	case "mul":
		return pickv([]string{"*", "/", "%"}, i)
	case "add":
		return pickv([]string{"+", "|", "&"}, i)
	case "cmp":
		return pickv([]string{"==", "<", "<=", ">", ">=", "!="}, i)
	case "and":
		return "&&"
	case "or":
		return "||"
	case "bad":
		return pickv([]string{"#", "@", "$", "~", "`", "?"}, i)
	case "rule", "when", "then", "salience":
		return pickv([]string{k, strings.ToUpper(k), strings.ToUpper(k[:1]) + k[1:]}, i)
	}
	return k // punctuation and "-"
}

func docText(toks []string) (string, int) {
	firstName := 0
	for i := 0; i+1 < len(toks); i++ {
		if toks[i] == "rule" && (toks[i+1] == "name" || toks[i+1] == "samename") {
			firstName = i + 2
			break
		}
	}
	parts := make([]string, len(toks))
	for i := range toks {
		parts[i] = tokenText(toks, i+1, firstName)
	}
	return strings.Join(parts, " "), firstName
}

type GFact struct{ X, Y int64 }

const priorRule = `rule Prior "p" salience 3 { when G.X == 1 && G.Y < 5 then G.Y = G.Y + 2; Retract("Prior"); }`

// priorBehaves checks that the rule loaded before the document is still in force and unchanged.
func priorBehaves(lib *ast.KnowledgeLibrary) string {
	kb, err := lib.NewKnowledgeBaseInstance("g", "1")
	if err != nil {
		return "instantiate: " + err.Error()
	}
	// the rules of the document itself refer to facts that do not exist: only the earlier rule is run
	others := []string{}
	for name := range kb.RuleEntries {
		if name != "Prior" {
			others = append(others, name)
		}
	}
	for _, name := range others {
		kb.RemoveRuleEntry(name)
	}
	re, ok := kb.RuleEntries["Prior"]
	if !ok || re.RuleDescription != "p" || re.Salience != 3 {
		return "rule Prior is gone or its description / salience changed"
	}
	g := &GFact{X: 1}
	dc := ast.NewDataContext()
	dc.Add("G", g)
	eng := &engine.GruleEngine{MaxCycle: 10}
	res, err := eng.FetchMatchingRules(dc, kb)
	if err != nil {
		return "fetch: " + err.Error()
	}
	found := false
	for _, r := range res {
		found = found || r.RuleName == "Prior"
	}
	if !found {
		return "rule Prior no longer matches"
	}
	if err := eng.Execute(dc, kb); err != nil {
		return "execute: " + err.Error()
	}
	if g.Y != 2 {
		return fmt.Sprintf("rule Prior no longer behaves as before (Y=%d)", g.Y)
	}
	var buf bytes.Buffer
	if err := lib.StoreKnowledgeBaseToWriter(&buf, "g", "1"); err != nil {
		return "store: " + err.Error()
	}
	lib2 := ast.NewKnowledgeLibrary()
	if _, err := lib2.LoadKnowledgeBaseFromReader(&buf, true); err != nil {
		return "load of the stored knowledge base: " + err.Error()
	}
	if _, err := lib2.NewKnowledgeBaseInstance("g", "1"); err != nil {
		return "instantiate after store/load: " + err.Error()
	}
	return ""
}

func cmdGramReplay(args []string) {
	fs := flag.NewFlagSet("gram-replay", flag.ExitOnError)
	in := fs.String("in", "cases.ndjson", "cases exported by TLC")
	out := fs.String("out", "mismatch.ndjson", "disagreements")
	fs.Parse(args)
	f, err := os.Open(*in)
	must(err)
	defer f.Close()
	of, err := os.Create(*out)
	must(err)
	defer of.Close()
	w := bufio.NewWriter(of)
	defer w.Flush()
	sc := bufio.NewScanner(f)
	sc.Buffer(make([]byte, 1<<20), 1<<24)
	n, bad, accepted, refused := 0, 0, 0, 0
	muts := map[string]int{}
	for sc.Scan() {
		line := bytes.TrimSpace(sc.Bytes())
		if len(line) == 0 {
			continue
		}
		var c gramCase
		must(json.Unmarshal(line, &c))
		raw := append(json.RawMessage{}, line...)
		n++
		muts[c.Mut]++
		text, firstName := docText(c.Toks)
		report := func(what string, want, got interface{}) {
			bad++
			b, _ := json.Marshal(J{"line": raw, "fam": c.Fam, "mut": c.Mut, "text": text, "what": what, "want": want, "got": got})
			w.Write(b)
			w.WriteByte('\n')
		}
		func() {
			defer func() {
				if r := recover(); r != nil {
					report("panic", "a result or an error", fmt.Sprint(r))
				}
			}()
			lib := ast.NewKnowledgeLibrary()
			rb := builder.NewRuleBuilder(lib)
			must(rb.BuildRuleFromResource("g", "1", pkg.NewBytesResource([]byte(priorRule))))
			err := rb.BuildRuleFromResource("g", "1", pkg.NewBytesResource([]byte(text)))
			if (err == nil) != c.Accepts {
				got := "accepted"
				if err != nil {
					got = "refused: " + err.Error()
					if rep, ok := err.(*pkg.GruleErrorReporter); ok && len(rep.Errors) > 0 {
						got += " / " + rep.Errors[0].Error()
					}
				}
				report("acceptance", map[bool]string{true: "accepted", false: "refused"}[c.Accepts], got)
				return
			}
			if err == nil {
				accepted++
				kbp := lib.GetKnowledgeBase("g", "1")
				want := []string{"Prior|p|3"}
				for _, r := range c.Rules {
					name := tokenText(c.Toks, r.NameAt, firstName)
					desc := "No Description"
					if r.Desc {
						d := tokenText(c.Toks, r.DescAt, firstName)
						desc = d[1 : len(d)-1]
					}
					sal := 0
					if r.Sal != 0 {
						sal = 7 * r.Sal
					}
					want = append(want, fmt.Sprintf("%s|%s|%d", name, desc, sal))
				}
				got := []string{}
				for _, re := range kbp.RuleEntries {
					got = append(got, fmt.Sprintf("%s|%s|%d", re.RuleName, re.RuleDescription, re.Salience))
				}
				sort.Strings(want)
				sort.Strings(got)
				if strings.Join(want, ";") != strings.Join(got, ";") {
					report("rule table", want, got)
					return
				}
			} else {
				refused++
				if c.Syntax {
					if rep, ok := err.(*pkg.GruleErrorReporter); !ok || len(rep.Errors) == 0 {
						report("error kind", "GruleErrorReporter with at least one entry", fmt.Sprintf("%T: %v", err, err))
						return
					}
				}
				// nothing but complete, grammatical rules of the text may have been taken over; none at all from an ungrammatical text
				allowed := map[string]bool{"Prior": true}
				for _, r := range c.Rules {
					allowed[tokenText(c.Toks, r.NameAt, firstName)] = true
				}
				for name := range lib.GetKnowledgeBase("g", "1").RuleEntries {
					if !allowed[name] {
						report("rules left by a refused text", "none but complete rules of a grammatical text", name)
						return
					}
				}
			}
			if err != nil {
				// the same refused text among several resources: the call must report it whatever follows it
				lib2 := ast.NewKnowledgeLibrary()
				rb2 := builder.NewRuleBuilder(lib2)
				good := pkg.NewBytesResource([]byte(`rule After "a" { when true then Retract("After"); }`))
				if e2 := rb2.BuildRuleFromResources("g", "1", []pkg.Resource{pkg.NewBytesResource([]byte(priorRule)), pkg.NewBytesResource([]byte(text)), good}); e2 == nil {
					report("a refused text among several resources (BuildRuleFromResources)", "an error", "nil")
				}
			}
			if msg := priorBehaves(lib); msg != "" {
				what := "earlier rules after an accepted text"
				if err != nil {
					what = "earlier rules after a refused text"
				}
				report(what, "instantiable, storable, behaving as before", msg)
			}
		}()
	}
	st, _ := json.Marshal(J{"cases": n, "disagreements": bad, "accepted": accepted, "refused": refused, "mutations": muts})
	fmt.Println("STATS", string(st))
}
