package main

// Dedicated probes of recorded known findings: each is one fixed case whose trace the monitor is expected to flag
// while the defect exists (the generators avoid the pattern otherwise).

import (
	"bufio"
	"encoding/json"
	"flag"
	"os"
	"time"
)

// cmdProbeAlias: one element written through a constant selector and read through a different selector expression
// that denotes the same element (known finding C01/C02 "selector aliasing").
func cmdProbeAlias(args []string) {
	fs := flag.NewFlagSet("probe-alias", flag.ExitOnError)
	out := fs.String("out", "trace.ndjson", "trace file")
	casesOut := fs.String("cases", "cases.ndjson", "case file")
	fs.Parse(args)
	arrI := P("F.Arr").With(Step{Sel: P("F.I"), SelT: "i"})
	prog := &Program{Rules: []*Rule{
		{Name: "W", HasSal: true, Sal: 2, When: &Bin{Op: "&&", L: &Bin{Op: "==", L: P("F.Arr[0]"), R: CI(0)}, R: &Bin{Op: "==", L: P("F.X"), R: CI(0)}},
			Then: []*Action{{Kind: "asg", Path: P("F.Arr[0]"), Form: "=", E: CI(7)}, {Kind: "asg", Path: P("F.X"), Form: "=", E: CI(1)}}},
		{Name: "R", HasSal: true, Sal: 1, When: &Bin{Op: "==", L: arrI, R: CI(0)},
			Then: []*Action{{Kind: "asg", Path: P("F.Y"), Form: "+=", E: CI(1)}, {Kind: "retract", Name: "R"}}},
	}}
	rules, _ := json.Marshal(prog.JS())
	w := &World{F: &Fact{Arr: []int64{0, 0}, M: map[string]int64{"a": 0, "b": 0}, P: &Sub{}, Q: &Sub{}, Spare: &Sub{V: 7, S: "sp"}}, HasN: true}
	c := &Case{ID: 0, GRL: prog.GRL(), RulesJS: rules, Variant: "fresh", Profile: "probe-alias", Listener: 1, Counted: json.RawMessage(`{"k":"none"}`),
		Calls: []CallCfg{{Mode: "exec", World: w, Max: 5, CancelAt: -1}}}
	tf, err := os.Create(*out)
	must(err)
	defer tf.Close()
	em := NewEmitter(tf)
	RunCase(c, em, 20*time.Second)
	em.Flush()
	cf, err := os.Create(*casesOut)
	must(err)
	defer cf.Close()
	cw := bufio.NewWriter(cf)
	b, _ := json.Marshal(c)
	cw.Write(b)
	cw.WriteByte('\n')
	cw.Flush()
}
