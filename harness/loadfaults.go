package main

// C20: runs the loaders on the structured fault space TLC exports from spec/GrbStream.tla. The faults are applied
// in a child process (this binary re-executed under `ulimit -v`), because an allocation driven by a damaged
// length field ends in a fatal error no recover() can catch; the child measures its own allocation
// (runtime.MemStats.TotalAlloc delta) and wall time per input and the parent notices when it dies.

import (
	"bufio"
	"bytes"
	"encoding/binary"
	"encoding/json"
	"flag"
	"fmt"
	"math/rand"
	"os"
	"os/exec"
	"regexp"
	"runtime"
	"runtime/debug"
	"strings"
	"time"

	"github.com/hyperjumptech/grule-rule-engine/ast"
	"github.com/hyperjumptech/grule-rule-engine/builder"
	"github.com/hyperjumptech/grule-rule-engine/pkg"
)

type faultCase struct {
	Input []byte `json:"input,omitempty"` // replay: the damaged input itself (the layout of a stored stream depends on Go map order)
	Fault struct {
		Loader string `json:"loader"`
		Kind   string `json:"kind"`
		At     int    `json:"at"`
		Val    string `json:"val"`
		From   string `json:"from"`
	} `json:"fault"`
}

var boundaryVal = map[string]uint64{"0": 0, "1": 1, "255": 255, "2^16": 1 << 16, "2^20": 1 << 20, "2^24": 1 << 24, "2^30": 1 << 30, "2^31": 1 << 31,
	"2^32": 1 << 32, "2^36": 1 << 36, "2^40": 1 << 40, "2^44": 1 << 44, "2^48": 1 << 48, "2^56": 1 << 56, "2^63-1": 1<<63 - 1, "2^63": 1 << 63,
	"2^64-1": ^uint64(0)}

const jsonRuleBase = `[{"name":"SpeedUp","desc":"when the car speeds up","salience":10,
 "when":{"and":[{"eq":["Car.SpeedUp",true]},{"lt":["Car.Speed",{"plus":["Car.MaxSpeed",{"const":1.5}]}]}]},
 "then":[{"set":["Car.Speed",{"plus":["Car.Speed","Car.Inc"]}]},{"call":["Log",{"const":"faster \"now\"\n"}]}]},
 {"name":"Stop","desc":"","salience":-3,"when":"Car.Speed > 100 && !Car.SpeedUp","then":["Car.Speed = 0","Retract(\"Stop\")"]}]`
const jsonFactBase = `{"name":"car","speed":12.5,"max":200,"tags":["a","b",{"deep":[1,2,3,{"x":null}]}],"on":true,"nested":{"a":{"b":{"c":[1e3,-2,0.5]}}}}`

type baseInputs struct {
	grb             [][]byte
	grl, rule, fact string
}

type basesFile struct {
	Grb             [][]byte
	Grl, Rule, Fact string
}

func saveBases(b *baseInputs, path string) {
	data, _ := json.Marshal(basesFile{Grb: b.grb, Grl: b.grl, Rule: b.rule, Fact: b.fact})
	must(os.WriteFile(path, data, 0o644))
}

func loadBases(path string) *baseInputs {
	data, err := os.ReadFile(path)
	must(err)
	var f basesFile
	must(json.Unmarshal(data, &f))
	return &baseInputs{grb: f.Grb, grl: f.Grl, rule: f.Rule, fact: f.Fact}
}

func makeBases(seed int64) *baseInputs {
	r := rand.New(rand.NewSource(seed))
	b := &baseInputs{rule: jsonRuleBase, fact: jsonFactBase}
	for _, prof := range []string{"small", "core"} {
		g := &Gen{r: r, p: profiles[prof]}
		p := g.Program()
		lib := ast.NewKnowledgeLibrary()
		must(builder.NewRuleBuilder(lib).BuildRuleFromResource("kb", "1", pkg.NewBytesResource([]byte(p.GRL()))))
		var buf bytes.Buffer
		must(lib.StoreKnowledgeBaseToWriter(&buf, "kb", "1"))
		b.grb = append(b.grb, buf.Bytes())
		if prof == "core" {
			b.grl = p.GRL()
		}
	}
	return b
}

func textFault(base, kind string, at int, val string) string {
	if kind == "emptyop" {
		// one operator of the JSON rule language with an empty / null / one-element / wrong-typed operand list, in the condition
		// and in an action (JSON rule loader only)
		ops := []string{"and", "or", "eq", "not", "gt", "gte", "lt", "lte", "bor", "band", "plus", "minus", "div", "mul", "mod", "set", "call", "obj", "const"}
		op := ops[at%len(ops)]
		operands := map[string]string{"empty": "[]", "null": "null", "one": "[1]", "object": "{}", "string": `""`}[val]
		return fmt.Sprintf(`[{"name":"E","desc":"d","salience":1,"when":{"%s":%s},"then":[{"%s":%s}]}]`, op, operands, op, operands)
	}
	if val == "deepcmp" {
		// comparison / arithmetic operators of the JSON rule language nested 24 .. 60 deep (JSON rule loader only)
		if kind != "insert" || !(strings.HasPrefix(strings.TrimSpace(base), "[") || strings.HasPrefix(strings.TrimSpace(base), "{")) {
			return base
		}
		op := []string{"plus", "minus", "mul", "eq", "gt", "lte", "bor", "band", "mod", "div"}[at%10]
		depth := 24 + 4*at
		return `[{"name":"D","desc":"d","salience":1,"when":{"eq":[` + strings.Repeat(`{"`+op+`":[1,`, depth) + "2" + strings.Repeat("]}", depth) + `,3]},"then":[{"call":["Complete"]}]}]`
	}
	if val == "nullroot" {
		// documents whose root is null, a bare scalar, or holds nulls (fact and rule loaders)
		docs := []string{"null", " null ", "\n\tnull\r\n", "[null]", `{"a":null}`, "true", "0", `""`, "[]", "{}"}
		if kind == "insert" && (strings.HasPrefix(strings.TrimSpace(base), "[") || strings.HasPrefix(strings.TrimSpace(base), "{")) {
			return docs[at%len(docs)]
		}
		return base
	}
	if val == "selchain" {
		// a chain of array / map selectors on a call result (dedicated probe: the node signature must not grow faster than the text)
		if kind == "insert" && at < 4 && (strings.HasPrefix(strings.TrimSpace(base), "rule") || strings.HasPrefix(strings.TrimSpace(base), "Rule") || strings.HasPrefix(strings.TrimSpace(base), "RULE")) {
			return "rule S { when F.Get()" + strings.Repeat("[0]", 12+2*at) + " == 1 then F.X = 1; }"
		}
		return base
	}
	if val == "longchain" {
		// one very long access chain in an otherwise valid rule (dedicated probe of a known finding)
		if strings.HasPrefix(strings.TrimSpace(base), "rule") || strings.HasPrefix(strings.TrimSpace(base), "Rule") || strings.HasPrefix(strings.TrimSpace(base), "RULE") {
			if kind == "insert" && at < 3 {
				return "rule L { when F" + strings.Repeat(".abcdefghij", 700+100*at) + " == 1 then F.X = 1; }"
			}
			return base
		}
		return base
	}
	if kind == "double" {
		return doubleFault(base, at, val)
	}
	pos := len(base) * at / 10
	ins := map[string]string{"bignum": "99999999999999999999999999999", "deep": strings.Repeat("(", 3000), "quote": `"`, "nul": "\x00", "brace": "{",
		"longname": strings.Repeat("abcdefghij", 10000), "unicode": "é☃\U0001F600\xff\xfe"}[val]
	if strings.HasPrefix(strings.TrimSpace(base), "[") || strings.HasPrefix(strings.TrimSpace(base), "{") {
		if val == "deep" {
			ins = strings.Repeat(`{"and":[`, 3000)
		}
	}
	switch kind {
	case "cut":
		if val == "blank" {
			return " \n\t\r "[:min(5, at+1)]
		}
		return base[:pos] + map[string]string{"quote": `"`, "brace": "{", "nul": "\x00"}[val]
	case "insert":
		return base[:pos] + ins + base[pos:]
	case "repeat":
		if len(ins) > 100 {
			ins = ins[:100]
		}
		return base[:pos] + strings.Repeat(ins+base[pos:min(pos+40, len(base))], 300) + base[pos:]
	}
	return base
}

// doubleFault: an early fault that stops the loader's work on one rule, then boundary material in a later rule.
func doubleFault(base string, at int, val string) string {
	isJSON := strings.HasPrefix(strings.TrimSpace(base), "[") || strings.HasPrefix(strings.TrimSpace(base), "{")
	wide := []string{"2147483648", "3000000000", "99999999999999999999", "-2147483649", "0x80000000", "9223372036854775807", "4294967296",
		"-9223372036854775808", "1e400", "2147483647"}[at%10]
	if isJSON {
		early := map[string]string{
			"widesal":  `{"name":"Pre1","desc":"p","salience":2147483648,"when":{"eq":[1,1]},"then":[{"call":["Retract",{"const":"Pre1"}]}]}`,
			"badesc":   `{"name":"Pre1","desc":"p","salience":1,"when":{"eq":[{"obj":"\"\\q\""},1]},"then":[{"call":["Retract",{"const":"Pre1"}]}]}`,
			"dupname":  `{"name":"Pre1","desc":"p","salience":1,"when":{"eq":[1,1]},"then":[{"call":["Complete"]}]},{"name":"Pre1","desc":"p","salience":2,"when":{"eq":[1,1]},"then":[{"call":["Complete"]}]}`,
			"badtoken": `{"name":"Pre1","desc":"p","salience":1,"when":{"eq":[{"obj":"F.#"},1]},"then":[{"call":["Complete"]}]}`,
			"unclosed": `{"name":"Pre1","desc":"p","salience":1,"when":{"eq":[{"obj":"(F.X"},1]},"then":[{"call":["Complete"]}]}`,
		}[val]
		w := wide
		if strings.HasPrefix(w, "0x") || w == "1e400" {
			w = `{"obj":"` + w + `"}`
		}
		late := `{"name":"Post1","desc":"q","salience":5,"when":{"gt":["F.X",` + w + `]},"then":[{"set":["F.X",` + w + `]},{"call":["Retract",{"const":"Post1"}]}]}`
		mid := strings.TrimSpace(base)
		mid = strings.TrimSuffix(strings.TrimPrefix(mid, "["), "]")
		return "[" + early + "," + mid + "," + late + "]"
	}
	early := map[string]string{
		"widesal":  `rule Pre1 "p" salience 2147483648 { when true then Retract("Pre1"); }`,
		"badesc":   `rule Pre1 "\q" salience 2 { when F.S == "\q" then Retract("Pre1"); }`,
		"dupname":  `rule Pre1 "p" { when true then Retract("Pre1"); } rule Pre1 "p" salience 3 { when true then Retract("Pre1"); }`,
		"badtoken": `rule Pre1 "p" salience 4 { when F.X # 1 then Retract("Pre1"); }`,
		"unclosed": `rule Pre1 "p" salience 4 { when (F.X == 1 then Retract("Pre1"); }`,
	}[val]
	late := `rule Post1 "q" salience 5 { when F.X > ` + wide + ` then F.X = ` + wide + `; Retract("Post1"); }`
	if at%2 == 1 {
		late = `rule Post0 "q" salience 6 { when true then Retract("Post0"); } ` + late
	}
	return early + "\n" + base + "\n" + late
}

// recReader records where the loader reads 8 bytes at once: exactly the integer fields (lengths, counts, numbers).
type recReader struct {
	r    *bytes.Reader
	ints []int
}

func (x *recReader) Read(p []byte) (int, error) {
	off := int(x.r.Size()) - x.r.Len()
	n, err := x.r.Read(p)
	if len(p) == 8 && n == 8 {
		x.ints = append(x.ints, off)
	}
	return n, err
}

// intFields loads the valid stream through a recording reader and returns the offset of every integer field.
func intFields(d []byte) []int {
	rr := &recReader{r: bytes.NewReader(d)}
	if _, err := ast.NewKnowledgeLibrary().LoadKnowledgeBaseFromReader(rr, true); err != nil {
		return nil
	}
	return rr.ints
}

// lengthFields lists the offsets that plausibly hold a length or count: every 8-byte little-endian window below 4096
// (strings and node ids are ASCII, so most other windows are huge numbers; a window that starts one byte early -
// last character of a string + a tiny count - also qualifies, so windows are not skipped after a hit).
func lengthFields(d []byte) []int {
	var offs []int
	for p := 0; p+8 <= len(d); p++ {
		if binary.LittleEndian.Uint64(d[p:]) < 4096 {
			offs = append(offs, p)
		}
	}
	return offs
}

func grbFault(base []byte, kind string, at int, val, from string) []byte {
	d := append([]byte{}, base...)
	off := at
	if from == "end" {
		off = len(d) - 8 - at
	}
	if kind == "edit8" {
		// the at-th length / count field from the start, or from the end
		fields := lengthFields(d)
		if len(fields) == 0 {
			return d
		}
		if from == "end" {
			// counts (of arguments, actions, index entries) are tiny: the at-th field holding a value <= 8, spread over the stream
			var small []int
			for _, p := range fields {
				if binary.LittleEndian.Uint64(d[p:]) <= 8 {
					small = append(small, p)
				}
			}
			if len(small) == 0 {
				small = fields
			}
			off = small[(at*7)%len(small)]
		} else {
			off = fields[at%len(fields)]
		}
	}
	switch kind {
	case "edit8":
		if off < 0 || off+8 > len(d) {
			return d
		}
		orig := binary.LittleEndian.Uint64(d[off:])
		v, ok := boundaryVal[val]
		if !ok {
			switch val {
			case "len-1":
				v = orig - 1
			case "len+1":
				v = orig + 1
			case "len*2":
				v = orig * 2
			}
		}
		binary.LittleEndian.PutUint64(d[off:], v)
	case "flip":
		if off < 0 || off >= len(d) {
			return d
		}
		d[off] ^= map[string]byte{"bit0": 1, "bit3": 8, "bit7": 128}[val]
	case "cut":
		return d[:len(d)*at/10]
	case "splice":
		pos := len(d) * at / 10
		var piece []byte
		switch val {
		case "head":
			piece = d[:min(256, len(d))]
		case "tail":
			piece = d[max(0, len(d)-256):]
		default:
			piece = d
		}
		return append(append(append([]byte{}, d[:pos]...), piece...), d[pos:]...)
	}
	return d
}

func applyFault(b *baseInputs, c *faultCase, idx int) []byte {
	if c.Input != nil {
		return c.Input
	}
	f := c.Fault
	switch f.Loader {
	case "grb":
		// (the base stream depends on the fault alone, so that a single case replays identically)
		return grbFault(b.grb[(f.At+len(f.Val)+len(f.From))%len(b.grb)], f.Kind, f.At, f.Val, f.From)
	case "grl":
		return []byte(textFault(b.grl, f.Kind, f.At, f.Val))
	case "jsonrule":
		return []byte(textFault(b.rule, f.Kind, f.At, f.Val))
	case "jsonfact":
		return []byte(textFault(b.fact, f.Kind, f.At, f.Val))
	}
	panic("loader " + f.Loader)
}

// runLoader calls the loader; a returned error is fine, a panic is reported.
func runLoader(loader string, input []byte) (outcome string) {
	defer func() {
		if r := recover(); r != nil {
			outcome = fmt.Sprintf("panic: %v", r)
		}
	}()
	var err error
	switch loader {
	case "grb":
		_, err = ast.NewKnowledgeLibrary().LoadKnowledgeBaseFromReader(bytes.NewReader(input), true)
	case "grl":
		err = builder.NewRuleBuilder(ast.NewKnowledgeLibrary()).BuildRuleFromResource("k", "1", pkg.NewBytesResource(input))
	case "jsonrule":
		var res pkg.Resource
		res, err = pkg.NewJSONResourceFromResource(pkg.NewBytesResource(input))
		if err == nil {
			err = builder.NewRuleBuilder(ast.NewKnowledgeLibrary()).BuildRuleFromResource("k", "1", res)
		}
	case "jsonfact":
		err = ast.NewDataContext().AddJSON("J", input)
	}
	if err != nil {
		return "error"
	}
	return "ok"
}

func readFaultCases(path string) []*faultCase {
	f, err := os.Open(path)
	must(err)
	defer f.Close()
	sc := bufio.NewScanner(f)
	sc.Buffer(make([]byte, 1<<20), 1<<24)
	var cs []*faultCase
	for sc.Scan() {
		if len(bytes.TrimSpace(sc.Bytes())) == 0 {
			continue
		}
		c := &faultCase{}
		must(json.Unmarshal(sc.Bytes(), c))
		cs = append(cs, c)
	}
	return cs
}

// cmdLoadChild applies faults from..to and prints one result line per case (flushed at once: the parent must see
// how far the child got if it is killed).
func cmdLoadChild(args []string) {
	fs := flag.NewFlagSet("load-child", flag.ExitOnError)
	in := fs.String("in", "cases.ndjson", "fault descriptors")
	bases := fs.String("bases", "bases.json", "valid base inputs written by the parent")
	from := fs.Int("from", 0, "first case")
	to := fs.Int("to", 1<<30, "last case + 1")
	fs.Parse(args)
	cs := readFaultCases(*in)
	b := loadBases(*bases)
	debug.SetMaxStack(256 << 20) // (default 1 GB: an unbounded recursion ends in the same fatal error, only later)
	for i := *from; i < *to && i < len(cs); i++ {
		if cs[i].Fault.Kind == "sweep8" {
			sweepAllFields(b, cs[i], i)
			continue
		}
		if cs[i].Fault.Kind == "idswap" && cs[i].Input == nil {
			sweepIDs(b, cs[i], i)
			continue
		}
		input := applyFault(b, cs[i], i)
		fmt.Printf("START %d\n", i)
		var m0, m1 runtime.MemStats
		runtime.GC()
		runtime.ReadMemStats(&m0)
		t0 := time.Now()
		done := make(chan string, 1)
		go func() { done <- runLoader(cs[i].Fault.Loader, input) }()
		outcome := ""
		select {
		case outcome = <-done:
		case <-time.After(20 * time.Second):
			fmt.Printf("RESULT %s\n", mustJSON(J{"i": i, "outcome": "hang", "len": len(input), "ms": 20000, "alloc": 0}))
			os.Exit(3)
		}
		ms := time.Since(t0).Milliseconds()
		runtime.ReadMemStats(&m1)
		fmt.Printf("RESULT %s\n", mustJSON(J{"i": i, "outcome": outcome, "len": len(input), "ms": ms, "alloc": m1.TotalAlloc - m0.TotalAlloc}))
	}
	fmt.Println("CHILD-DONE")
}

// sweepAllFields overwrites EVERY integer field of a valid stream (found with the recording reader) by the fault's
// value, one at a time, and reports the worst load; the damaged input of the worst case travels with the result.
func sweepAllFields(b *baseInputs, c *faultCase, i int) {
	base := c.Input
	if base == nil {
		base = b.grb[len(c.Fault.Val)%len(b.grb)]
	}
	fields := intFields(base)
	fmt.Printf("START %d\n", i)
	var worstAlloc uint64
	var worstMs int64
	worstOutcome, worstAt := "ok", -1
	t00 := time.Now()
	for _, off := range fields {
		d := append([]byte{}, base...)
		orig := binary.LittleEndian.Uint64(d[off:])
		v, ok := boundaryVal[c.Fault.Val]
		if !ok {
			v = map[string]uint64{"len-1": orig - 1, "len+1": orig + 1, "len*2": orig * 2}[c.Fault.Val]
		}
		binary.LittleEndian.PutUint64(d[off:], v)
		var m0, m1 runtime.MemStats
		runtime.ReadMemStats(&m0)
		t0 := time.Now()
		outcome := runLoader("grb", d)
		ms := time.Since(t0).Milliseconds()
		runtime.ReadMemStats(&m1)
		alloc := m1.TotalAlloc - m0.TotalAlloc
		if strings.HasPrefix(outcome, "panic") || alloc > worstAlloc {
			if !strings.HasPrefix(worstOutcome, "panic") {
				worstAlloc, worstMs, worstAt = alloc, ms, off
				if strings.HasPrefix(outcome, "panic") {
					worstOutcome = outcome
				} else {
					worstOutcome = "ok"
				}
			}
		}
		if time.Since(t00) > 120*time.Second {
			break
		}
	}
	fmt.Printf("RESULT %s\n", mustJSON(J{"i": i, "outcome": worstOutcome, "len": len(base), "ms": worstMs, "alloc": worstAlloc, "fields": len(fields), "at": worstAt}))
}

var reNodeID = regexp.MustCompile(`[0-9a-f]{8}-[0-9a-f]{4}-[0-9a-f]{4}-[0-9a-f]{4}-[0-9a-f]{12}`)

// idOccurrences lists the offsets of the node ids of a stream (36-character strings behind a length field of 36).
func idOccurrences(d []byte) []int {
	var out []int
	for _, m := range reNodeID.FindAllIndex(d, -1) {
		if m[0] >= 8 && binary.LittleEndian.Uint64(d[m[0]-8:]) == 36 {
			out = append(out, m[0])
		}
	}
	return out
}

// idSwaps enumerates the (offset, replacement) pairs of an idswap fault: every id occurrence is replaced by the
// distinct ids that precede it most closely (itself when it is a definition followed by a reference, its parent,
// earlier siblings) or by ids picked at random from the whole stream.
func idSwaps(base []byte, val string) (offs []int, repl []string) {
	occ := idOccurrences(base)
	r := rand.New(rand.NewSource(int64(len(base))))
	for k, off := range occ {
		own := string(base[off : off+36])
		seen := map[string]bool{own: true}
		var cands []string
		if val == "near" {
			for j := k - 1; j >= 0 && len(cands) < 6; j-- {
				id := string(base[occ[j] : occ[j]+36])
				if !seen[id] {
					seen[id] = true
					cands = append(cands, id)
				}
			}
			for j := k + 1; j < len(occ) && len(cands) < 8; j++ {
				id := string(base[occ[j] : occ[j]+36])
				if !seen[id] {
					seen[id] = true
					cands = append(cands, id)
				}
			}
		} else {
			for t := 0; t < 3; t++ {
				id := string(base[occ[r.Intn(len(occ))]:][:36])
				if !seen[id] {
					seen[id] = true
					cands = append(cands, id)
				}
			}
		}
		for _, c := range cands {
			offs = append(offs, off)
			repl = append(repl, c)
		}
	}
	return
}

// sweepIDs loads every reference-spliced variant of a valid stream. Before each load it prints which one (a stack
// overflow kills the process: the parent rebuilds the fatal input from the last SUB line).
func sweepIDs(b *baseInputs, c *faultCase, i int) {
	base := b.grb[len(c.Fault.Val)%len(b.grb)]
	offs, repl := idSwaps(base, c.Fault.Val)
	fmt.Printf("START %d\n", i)
	var worstAlloc uint64
	var worstMs int64
	worstOutcome, worstAt, worstRepl := "ok", -1, ""
	t00 := time.Now()
	n := 0
	for k := range offs {
		d := append([]byte{}, base...)
		copy(d[offs[k]:], repl[k])
		fmt.Printf("SUB %d %d %s\n", i, offs[k], repl[k])
		var m0, m1 runtime.MemStats
		runtime.ReadMemStats(&m0)
		t0 := time.Now()
		outcome := runLoader("grb", d)
		ms := time.Since(t0).Milliseconds()
		runtime.ReadMemStats(&m1)
		alloc := m1.TotalAlloc - m0.TotalAlloc
		n++
		if !strings.HasPrefix(worstOutcome, "panic") && (strings.HasPrefix(outcome, "panic") || alloc > worstAlloc) {
			worstAlloc, worstMs, worstAt, worstRepl = alloc, ms, offs[k], repl[k]
			if strings.HasPrefix(outcome, "panic") {
				worstOutcome = outcome
			}
		}
		if time.Since(t00) > 120*time.Second {
			break
		}
	}
	fmt.Printf("RESULT %s\n", mustJSON(J{"i": i, "outcome": worstOutcome, "len": len(base), "ms": worstMs, "alloc": worstAlloc, "fields": n, "at": worstAt, "repl": worstRepl}))
}

func mustJSON(v interface{}) string { b, _ := json.Marshal(v); return string(b) }

// cmdLoadFaults is the parent: it drives children over all cases and writes the cases that broke a bound.
func cmdLoadFaults(args []string) {
	fs := flag.NewFlagSet("load-faults", flag.ExitOnError)
	in := fs.String("in", "cases.ndjson", "fault descriptors exported by TLC")
	out := fs.String("out", "mismatch.ndjson", "cases that broke a bound")
	seed := fs.Int64("seed", 1, "seed")
	vlimit := fs.Int("vlimit", 6000000, "ulimit -v of the child, KiB")
	allocBase := fs.Int64("allocbase", 48<<20, "allowed allocation: base ...")
	allocPer := fs.Int64("allocper", 2048, "... plus this many bytes per input byte")
	msLimit := fs.Int64("ms", 8000, "allowed time per input")
	fs.Parse(args)
	cs := readFaultCases(*in)
	of, err := os.Create(*out)
	must(err)
	defer of.Close()
	w := bufio.NewWriter(of)
	defer w.Flush()
	self, err := os.Executable()
	must(err)
	basesPath := *out + ".bases.json"
	bases := makeBases(*seed)
	saveBases(bases, basesPath)
	defer os.Remove(basesPath)
	bad, done, children, swept := 0, 0, 0, 0
	var maxAlloc, maxMs int64
	outcomes := map[string]int{}
	loaders := map[string]int{}
	report := func(i int, what string, rec J) {
		bad++
		withInput := *cs[i]
		if cs[i].Fault.Kind == "sweep8" {
			withInput.Input = cs[i].Input
			if withInput.Input == nil {
				withInput.Input = bases.grb[len(cs[i].Fault.Val)%len(bases.grb)]
			}
		} else {
			withInput.Input = applyFault(bases, cs[i], i)
		}
		line, _ := json.Marshal(J{"fam": "fault", "fault": cs[i].Fault, "want": "Bounded", "input": withInput.Input})
		b, _ := json.Marshal(J{"line": json.RawMessage(line), "idx": i, "seed": *seed, "what": what, "got": rec, "fault": cs[i].Fault})
		w.Write(b)
		w.WriteByte('\n')
	}
	next := 0
	for next < len(cs) {
		children++
		cmd := exec.Command("sh", "-c", fmt.Sprintf("ulimit -v %d; exec %s load-child -in %s -bases %s -from %d", *vlimit, self, *in, basesPath, next))
		var stdout, stderr bytes.Buffer
		cmd.Stdout, cmd.Stderr = &stdout, &stderr
		runErr := cmd.Run()
		started := -1
		subOff, subID := -1, ""
		finished := false
		hung := false
		for _, line := range strings.Split(stdout.String(), "\n") {
			switch {
			case strings.HasPrefix(line, "START "):
				fmt.Sscanf(line, "START %d", &started)
				subOff, subID = -1, ""
			case strings.HasPrefix(line, "SUB "):
				var si int
				fmt.Sscanf(line, "SUB %d %d %s", &si, &subOff, &subID)
			case strings.HasPrefix(line, "RESULT "):
				var rec struct {
					I       int    `json:"i"`
					Outcome string `json:"outcome"`
					Len     int64  `json:"len"`
					Ms      int64  `json:"ms"`
					Alloc   int64  `json:"alloc"`
					Fields  int    `json:"fields"`
					At      int    `json:"at"`
					Repl    string `json:"repl"`
				}
				must(json.Unmarshal([]byte(line[7:]), &rec))
				done++
				swept += rec.Fields
				loaders[cs[rec.I].Fault.Loader]++
				key := rec.Outcome
				if strings.HasPrefix(key, "panic") {
					key = "panic"
				}
				outcomes[key]++
				maxAlloc, maxMs = max(maxAlloc, rec.Alloc), max(maxMs, rec.Ms)
				asJ := J{"outcome": rec.Outcome, "len": rec.Len, "ms": rec.Ms, "alloc": rec.Alloc}
				if cs[rec.I].Fault.Kind == "idswap" && cs[rec.I].Input == nil && rec.Repl != "" && rec.At >= 0 {
					// the worst input of the sweep travels with a report
					base := bases.grb[len(cs[rec.I].Fault.Val)%len(bases.grb)]
					d := append([]byte{}, base...)
					copy(d[rec.At:], rec.Repl)
					cs[rec.I].Input = d
				}
				switch {
				case strings.HasPrefix(rec.Outcome, "panic"):
					report(rec.I, "the loader panicked", asJ)
				case rec.Outcome == "hang":
					hung = true
					report(rec.I, "the loader did not return within 20 s", asJ)
				case rec.Alloc > *allocBase+*allocPer*rec.Len:
					report(rec.I, fmt.Sprintf("the loader allocated %d bytes for an input of %d bytes", rec.Alloc, rec.Len), asJ)
				case rec.Ms > *msLimit:
					report(rec.I, fmt.Sprintf("the loader took %d ms for an input of %d bytes", rec.Ms, rec.Len), asJ)
				}
				next = rec.I + 1
				started = -1
			case line == "CHILD-DONE":
				finished = true
			}
		}
		if finished {
			break
		}
		if started >= 0 {
			// the child died inside case `started`
			tail := stderr.String()
			if len(tail) > 600 {
				tail = tail[:600]
			}
			outcomes["process-died"]++
			done++
			if cs[started].Fault.Kind == "idswap" && cs[started].Input == nil && subOff >= 0 {
				// the fatal input itself travels with the report
				base := bases.grb[len(cs[started].Fault.Val)%len(bases.grb)]
				d := append([]byte{}, base...)
				copy(d[subOff:], subID)
				cs[started].Input = d
			}
			report(started, "the process was aborted while loading (fatal error / kill): "+fmt.Sprint(runErr), J{"outcome": "process died", "stderr": tail})
			next = started + 1
		} else if runErr != nil && !hung {
			must(fmt.Errorf("child failed outside a case: %v %s", runErr, stderr.String()))
		}
	}
	st, _ := json.Marshal(J{"cases": done, "disagreements": bad, "children": children, "max_alloc_bytes": maxAlloc, "max_ms": maxMs, "outcomes": outcomes, "loaders": loaders, "integer_fields_swept": swept})
	fmt.Println("STATS", string(st))
}
