module verifharness

go 1.24.4

require (
	github.com/hyperjumptech/grule-rule-engine v0.0.0
	github.com/sirupsen/logrus v1.9.3
)

require (
	dario.cat/mergo v1.0.2 // indirect
	github.com/ProtonMail/go-crypto v1.3.0 // indirect
	github.com/antlr4-go/antlr/v4 v4.13.1 // indirect
	github.com/bmatcuk/doublestar v1.3.4 // indirect
	github.com/cloudflare/circl v1.6.1 // indirect
	github.com/cyphar/filepath-securejoin v0.4.1 // indirect
	github.com/emirpasic/gods v1.18.1 // indirect
	github.com/go-git/gcfg v1.5.1-0.20230307220236-3a3c6141e376 // indirect
	github.com/go-git/go-billy/v5 v5.6.2 // indirect
	github.com/go-git/go-git/v5 v5.16.2 // indirect
	github.com/golang/groupcache v0.0.0-20241129210726-2c02b8208cf8 // indirect
	github.com/google/uuid v1.6.0 // indirect
	github.com/jbenet/go-context v0.0.0-20150711004518-d14ea06fba99 // indirect
	github.com/kevinburke/ssh_config v1.2.0 // indirect
	github.com/mattn/go-colorable v0.1.14 // indirect
	github.com/mattn/go-isatty v0.0.20 // indirect
	github.com/pjbgf/sha1cd v0.3.2 // indirect
	github.com/rs/zerolog v1.34.0 // indirect
	github.com/sergi/go-diff v1.4.0 // indirect
	github.com/skeema/knownhosts v1.3.1 // indirect
	github.com/xanzy/ssh-agent v0.3.3 // indirect
	go.uber.org/multierr v1.11.0 // indirect
	go.uber.org/zap v1.27.0 // indirect
	golang.org/x/crypto v0.39.0 // indirect
	golang.org/x/exp v0.0.0-20240719175910-8a7402abbf56 // indirect
	golang.org/x/net v0.41.0 // indirect
	golang.org/x/sys v0.33.0 // indirect
	gopkg.in/warnings.v0 v0.1.2 // indirect
)

replace github.com/hyperjumptech/grule-rule-engine => /repo
