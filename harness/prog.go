package main

// Program AST shared by every driver: it is printed as GRL for the real engine and encoded as JSON
// (operators and assignment forms travel as names) for the TLA+ monitors, so text and AST cannot diverge.

import (
	"encoding/json"
	"fmt"
	"strconv"
	"strings"
)

type J = map[string]interface{}

// Expr is a GRL expression.
type Expr interface {
	GRL() string
	JS() interface{}
}

// Const is an int / bool / string constant.
type Const struct {
	T string // "i", "b", "s", "r" (whole-valued real literal: 2.0)
	I int64
	B bool
	S string
}

func CI(v int64) Expr  { return &Const{T: "i", I: v} }
func CB(v bool) Expr   { return &Const{T: "b", B: v} }
func CS(v string) Expr { return &Const{T: "s", S: v} }

func (c *Const) GRL() string {
	switch c.T {
	case "i":
		return strconv.FormatInt(c.I, 10)
	case "r":
		return strconv.FormatInt(c.I, 10) + ".0"
	case "b":
		if c.B {
			return "true"
		}
		return "false"
	}
	return strconv.Quote(c.S)
}
func (c *Const) JS() interface{} {
	switch c.T {
	case "i":
		return J{"k": "c", "t": "i", "v": c.I}
	case "r": // a real literal with a whole value: the same number for the specification, another kind of constant for the engine
		return J{"k": "c", "t": "r", "v": c.I}
	case "b":
		return J{"k": "c", "t": "b", "v": c.B}
	}
	return J{"k": "c", "t": "s", "v": c.S}
}

// Step of an access path: a name (top-level variable or field) or a selector expression.
type Step struct {
	Name string
	Sel  Expr
	SelT string // "i" or "s": type of the selector value
}

// Path is a variable: N, F.X, F.P.V, F.Arr[0], F.M["a"], F.Arr[F.I], J.a
type Path struct{ Steps []Step }

func P(spec string) *Path {
	// tiny parser for constant paths: F.Arr[0]  F.M["a"]  F.P.V  N
	p := &Path{}
	i := 0
	for i < len(spec) {
		switch spec[i] {
		case '.':
			i++
		case '[':
			j := strings.IndexByte(spec[i:], ']') + i
			inner := spec[i+1 : j]
			if inner[0] == '"' {
				p.Steps = append(p.Steps, Step{Sel: CS(inner[1 : len(inner)-1]), SelT: "s"})
			} else {
				v, err := strconv.ParseInt(inner, 10, 64)
				if err != nil {
					panic("bad path " + spec)
				}
				p.Steps = append(p.Steps, Step{Sel: CI(v), SelT: "i"})
			}
			i = j + 1
		default:
			j := i
			for j < len(spec) && spec[j] != '.' && spec[j] != '[' {
				j++
			}
			p.Steps = append(p.Steps, Step{Name: spec[i:j]})
			i = j
		}
	}
	return p
}

func (p *Path) With(s Step) *Path {
	n := &Path{Steps: append(append([]Step{}, p.Steps...), s)}
	return n
}

func (p *Path) GRL() string {
	var b strings.Builder
	for i, s := range p.Steps {
		if s.Sel != nil {
			b.WriteString("[" + s.Sel.GRL() + "]")
		} else {
			if i > 0 {
				b.WriteString(".")
			}
			b.WriteString(s.Name)
		}
	}
	return b.String()
}
func (p *Path) stepsJS() []interface{} {
	out := []interface{}{}
	for _, s := range p.Steps {
		if s.Sel != nil {
			out = append(out, J{"x": s.Sel.JS(), "t": s.SelT})
		} else {
			out = append(out, J{"n": s.Name})
		}
	}
	return out
}
func (p *Path) JS() interface{} { return J{"k": "p", "path": p.stepsJS()} }

// Bin is a binary operation; Op is the GRL operator text.
type Bin struct {
	Op   string
	L, R Expr
	Str  bool // + on strings (concatenation)
}

var OpName = map[string]string{"+": "add", "-": "sub", "*": "mul", "/": "div", "%": "mod", "&": "band", "|": "bor",
	"==": "eq", "!=": "ne", "<": "lt", "<=": "le", ">": "gt", ">=": "ge", "&&": "and", "||": "or"}

func (b *Bin) GRL() string { return "(" + b.L.GRL() + " " + b.Op + " " + b.R.GRL() + ")" }
func (b *Bin) JS() interface{} {
	op := OpName[b.Op]
	if b.Str && b.Op == "+" {
		op = "cat"
	}
	return J{"k": "bin", "op": op, "l": b.L.JS(), "r": b.R.JS()}
}

// Not is !(expr) or !atom.
type Not struct {
	E    Expr
	Atom bool // print as !atom (E must be a path / call / constant)
}

func (n *Not) GRL() string {
	if n.Atom {
		return "!" + n.E.GRL()
	}
	s := n.E.GRL()
	if strings.HasPrefix(s, "(") && strings.HasSuffix(s, ")") {
		if _, isBin := n.E.(*Bin); isBin {
			return "!" + s
		}
	}
	return "!(" + s + ")"
}
func (n *Not) JS() interface{} { return J{"k": "not", "e": n.E.JS()} }

// Call is a method call on a fact (Recv != nil) or a string/array/map built-in on a path.
type Call struct {
	Recv *Path
	Fn   string
	Args []Expr
}

func (c *Call) GRL() string {
	args := make([]string, len(c.Args))
	for i, a := range c.Args {
		args[i] = a.GRL()
	}
	return c.Recv.GRL() + "." + c.Fn + "(" + strings.Join(args, ", ") + ")"
}

// Text is the GrlText the engine keeps for the call (no white space): the name Forget() must be given.
func (c *Call) Text() string { return strings.ReplaceAll(c.GRL(), " ", "") }
func (c *Call) JS() interface{} {
	args := []interface{}{}
	for _, a := range c.Args {
		args = append(args, a.JS())
	}
	return J{"k": "call", "recv": c.Recv.stepsJS(), "fn": c.Fn, "args": args}
}

// Sel is an element or a member of what a method call yields: F.HeavyV(x)[1], F.HeavyP(x).V
type Sel struct {
	Base   *Call
	I      Expr   // element selector (Member == "")
	Member string // member name
}

func (s *Sel) GRL() string {
	if s.Member != "" {
		return s.Base.GRL() + "." + s.Member
	}
	return s.Base.GRL() + "[" + s.I.GRL() + "]"
}
func (s *Sel) JS() interface{} {
	if s.Member != "" {
		return J{"k": "mem", "base": s.Base.JS(), "m": s.Member}
	}
	return J{"k": "sel", "base": s.Base.JS(), "i": s.I.JS()}
}

// NowE is the built-in Now(): the one expression whose value is not a function of the facts.
type NowE struct{}

func (*NowE) GRL() string     { return "Now()" }
func (*NowE) JS() interface{} { return J{"k": "now"} }

// Action of a then-scope.
type Action struct {
	Kind string // asg, retract, complete, forget, changed, set (setter method call F.SetX(e))
	Path *Path  // asg target
	Form string // = += -= *= /=
	E    Expr   // asg rhs / setter arg
	Name string // retract / forget / changed argument; setter: method name
	Str  bool   // += on a string
	Bare bool   // print the right-hand side without its outer parentheses
	Once bool   // a method-call action that is not followed by Forget (the rule retracts itself)
}

// bare strips the outer parentheses of a fully parenthesised binary expression: "(a < b)" and "a < b" are
// different nodes for the engine (the first is wrapped), but mean the same.
func bare(e Expr, on bool) string {
	s := e.GRL()
	if _, isBin := e.(*Bin); on && isBin && len(s) > 2 {
		return s[1 : len(s)-1]
	}
	return s
}

var FormName = map[string]string{"=": "set", "+=": "add", "-=": "sub", "*=": "mul", "/=": "div"}

func (a *Action) GRL() string {
	switch a.Kind {
	case "asg":
		return a.Path.GRL() + " " + a.Form + " " + bare(a.E, a.Bare) + ";"
	case "retract":
		return "Retract(" + strconv.Quote(a.Name) + ");"
	case "complete":
		return "Complete();"
	case "forget":
		return "Forget(" + strconv.Quote(a.Name) + ");"
	case "changed":
		return "Changed(" + strconv.Quote(a.Name) + ");"
	case "set":
		return "F." + a.Name + "(" + bare(a.E, a.Bare) + ");"
	case "repoint":
		return "F.P = F.Spare;"
	}
	panic("bad action " + a.Kind)
}
func (a *Action) JS() interface{} {
	switch a.Kind {
	case "asg":
		form := FormName[a.Form]
		if a.Str && a.Form == "+=" {
			form = "cat"
		}
		return J{"k": "asg", "path": a.Path.stepsJS(), "form": form, "e": a.E.JS()}
	case "retract":
		return J{"k": "retract", "name": a.Name}
	case "complete":
		return J{"k": "complete"}
	case "forget", "changed":
		return J{"k": "forget", "name": a.Name}
	case "set":
		return J{"k": "setter", "fn": a.Name, "e": a.E.JS()}
	case "repoint":
		return J{"k": "repoint"}
	}
	panic("bad action " + a.Kind)
}

// Rule of a program.
type Rule struct {
	Name    string
	Desc    string
	Sal     int64
	HasSal  bool
	When    Expr
	Then    []*Action
	Removed bool // removed (library level) before the instance is created
	Bare    bool // print the condition without its outer parentheses
}

func (r *Rule) GRL() string {
	var b strings.Builder
	fmt.Fprintf(&b, "rule %s ", r.Name)
	if r.Desc != "" {
		b.WriteString(strconv.Quote(r.Desc) + " ")
	}
	if r.HasSal {
		fmt.Fprintf(&b, "salience %d ", r.Sal)
	}
	b.WriteString("{ when " + bare(r.When, r.Bare) + " then ")
	for _, a := range r.Then {
		b.WriteString(a.GRL() + " ")
	}
	b.WriteString("}")
	return b.String()
}
func (r *Rule) JS() interface{} {
	acts := []interface{}{}
	for _, a := range r.Then {
		acts = append(acts, a.JS())
	}
	return J{"sal": r.Sal, "w": r.When.JS(), "a": acts, "del": r.Removed}
}

// Program is a rule set.
type Program struct{ Rules []*Rule }

func (p *Program) GRL() string {
	parts := make([]string, len(p.Rules))
	for i, r := range p.Rules {
		parts[i] = r.GRL()
	}
	return strings.Join(parts, "\n")
}

// JSONText prints the program as a JSON rule set (variant json: the same rules through the JSON front end). Condition and
// actions are GRL text (taken over as it is), a member the GRL text leaves out (description, salience) is left out here too.
func (p *Program) JSONText() string {
	rules := []interface{}{}
	for _, r := range p.Rules {
		j := J{"name": r.Name, "when": bare(r.When, r.Bare)}
		if r.Desc != "" {
			j["desc"] = r.Desc
		}
		if r.HasSal {
			j["salience"] = r.Sal
		}
		then := []interface{}{}
		for _, a := range r.Then {
			then = append(then, a.GRL())
		}
		j["then"] = then
		rules = append(rules, j)
	}
	b, _ := json.Marshal(rules)
	return string(b)
}

// Parts splits the program into k resources (rule order kept).
func (p *Program) Parts(k int) []string {
	if k > len(p.Rules) {
		k = len(p.Rules)
	}
	out := make([]string, k)
	for i, r := range p.Rules {
		j := i * k / len(p.Rules)
		if out[j] != "" {
			out[j] += "\n"
		}
		out[j] += r.GRL()
	}
	return out
}
func (p *Program) JS() interface{} {
	m := J{}
	for _, r := range p.Rules {
		m[r.Name] = r.JS()
	}
	return m
}
