package main

// C07: replays the sibling pairs TLC exports from spec/GrlSiblings.tla. Each rule is built alone, the pair in both
// orders, in two resources, and among further rules; in every knowledge base each rule must match exactly
// on the fact states, and store exactly the value, the model computed for it alone.

import (
	"bufio"
	"bytes"
	"encoding/json"
	"flag"
	"fmt"
	"math/big"
	"os"
	"strconv"
	"strings"

	"github.com/hyperjumptech/grule-rule-engine/ast"
	"github.com/hyperjumptech/grule-rule-engine/builder"
	"github.com/hyperjumptech/grule-rule-engine/engine"
	"github.com/hyperjumptech/grule-rule-engine/pkg"
)

type dec struct {
	M int64 `json:"m"`
	E int64 `json:"e"`
	F bool  `json:"f"`
}

func (d dec) rat() *big.Rat {
	r := new(big.Rat).SetInt64(d.M)
	for i := int64(0); i > d.E; i-- {
		r.Quo(r, big.NewRat(10, 1))
	}
	return r
}
func (d dec) float() float64 { f, _ := d.rat().Float64(); return f }
func (d dec) text() string {
	if !d.F {
		return strconv.FormatInt(d.M, 10)
	}
	neg := d.M < 0
	m := d.M
	if neg {
		m = -m
	}
	s := strconv.FormatInt(m, 10)
	fr := int(-d.E)
	for len(s) <= fr {
		s = "0" + s
	}
	out := s[:len(s)-fr] + "." + s[len(s)-fr:]
	if fr == 0 {
		out = s + ".0"
	}
	if neg {
		out = "-" + out
	}
	return out
}

type sterm struct {
	K  string `json:"k"`
	V  *dec   `json:"v"`
	S  string `json:"s"`
	N  string `json:"n"`
	Op string `json:"op"`
	L  *sterm `json:"l"`
	R  *sterm `json:"r"`
	E  *sterm `json:"e"`
	A  *sterm `json:"a"`
	B  *sterm `json:"b"`
	Bv bool   `json:"bv"`
}

var sibPath = map[string]string{"V": "F.V", "X": "F.X", "Y": "F.Y", "S": "F.S", "T": "F.T", "B": "F.B", "A0": "F.Arr[0]", "A1": "F.Arr[1]",
	"Ma": `F.M["a"]`, "Mb": `F.M["b"]`,
	"GX": "F.Me().X", "GY": "F.Me().Y", "GA0": "F.GetArr()[0]", "GA1": "F.GetArr()[1]", "GMa": `F.GetM()["a"]`, "GMb": `F.GetM()["b"]`,
	"GS": "F.Me().S", "GT": "F.Me().T", "OX": "F.Other().X", "OY": "F.Other().Y", "GGX": "F.Me().Me().X", "GGY": "F.Me().Me().Y"}

func (t *sterm) grl() string {
	switch t.K {
	case "c":
		return t.V.text()
	case "s":
		return strconv.Quote(t.S)
	case "f":
		return sibPath[t.N]
	case "not":
		if t.E.K == "f" {
			return "!" + t.E.grl()
		}
		return "!(" + strings.TrimSuffix(strings.TrimPrefix(t.E.grl(), "("), ")") + ")"
	case "bool":
		return fmt.Sprint(t.Bv)
	case "sub":
		return "F.Sub(" + t.A.grl() + ", " + t.B.grl() + ")"
	case "kind":
		return "F.Kind(" + t.A.grl() + ")"
	case "gsub":
		return "F.Me().Sub(" + t.A.grl() + ", " + t.B.grl() + ")"
	case "bin":
		return "(" + t.L.grl() + " " + opSym[t.Op] + " " + t.R.grl() + ")"
	}
	panic("term kind " + t.K)
}

type sval struct {
	T string `json:"t"`
	V *dec   `json:"v"`
	S string `json:"s"`
	B bool   `json:"b"`
}

type sibWant struct {
	Holds  bool `json:"holds"`
	Stores sval `json:"stores"`
}

type sibCase struct {
	Fam   string            `json:"fam"`
	C1    *sterm            `json:"c1"`
	A1    *sterm            `json:"a1"`
	C2    *sterm            `json:"c2"`
	A2    *sterm            `json:"a2"`
	Facts []map[string]sval `json:"facts"`
	Want1 []sibWant         `json:"want1"`
	Want2 []sibWant         `json:"want2"`
	Mut1  []sibWant         `json:"wantMut1"`
	Mut2  []sibWant         `json:"wantMut2"`
}

type SibFact struct {
	V    float64
	X, Y int64
	S, T string
	B    bool
	Arr  []int64
	M    map[string]int64
	I    map[int64]int64
	R    map[int64]float64
	St   map[int64]string
	O    *SibFact
}

func (f *SibFact) Sub(a, b int64) int64    { return a - b }
func (f *SibFact) Me() *SibFact            { return f }

// Kind tells of which kind the value is that a rule handed over: literals that only print alike are different arguments.
func (f *SibFact) Kind(v interface{}) int64 {
	switch v.(type) {
	case int64, int, int32, uint64:
		return 1
	case float64, float32:
		return 2
	case string:
		return 3
	case bool:
		return 4
	}
	return 0
}
func (f *SibFact) GetArr() []int64         { return f.Arr }
func (f *SibFact) GetM() map[string]int64  { return f.M }
func (f *SibFact) Other() *SibFact         { return f.O }
func (f *SibFact) PutI(k, v int64)         { f.I[k] = v }
func (f *SibFact) PutR(k int64, v float64) { f.R[k] = v }
func (f *SibFact) PutS(k int64, v string)  { f.St[k] = v }

func mkSibFact(m map[string]sval) *SibFact {
	return &SibFact{V: m["V"].V.float(), X: m["X"].V.M, Y: m["Y"].V.M, S: m["S"].S, T: m["T"].S, B: m["B"].B,
		Arr: []int64{m["A0"].V.M, m["A1"].V.M}, M: map[string]int64{"a": m["Ma"].V.M, "b": m["Mb"].V.M},
		I: map[int64]int64{}, R: map[int64]float64{}, St: map[int64]string{}, O: &SibFact{X: m["X"].V.M + 10, Y: m["Y"].V.M + 10}}
}

func sibRule(name string, key int, c, a *sterm, stores sval) string {
	put := "PutI"
	if stores.T == "s" {
		put = "PutS"
	} else if stores.V != nil && stores.V.F {
		put = "PutR"
	}
	return fmt.Sprintf(`rule %s { when %s then F.%s(%d, %s); Retract("%s"); }`, name, c.grl(), put, key, a.grl(), name)
}

const mutRule = `rule ZM salience 100 { when F.X != F.Y then F.X = F.Y; }`

const fillers = `rule ZA salience -5 { when F.X > 1000 && F.B then F.PutI(90, F.X + 1); Retract("ZA"); }
rule ZB salience 7 { when F.S == "never-ever" || F.Y < -1000 then F.PutS(91, F.S + F.T); Retract("ZB"); }`

func cmdSibReplay(args []string) {
	fs := flag.NewFlagSet("sib-replay", flag.ExitOnError)
	in := fs.String("in", "cases.ndjson", "cases exported by TLC")
	out := fs.String("out", "mismatch.ndjson", "disagreements")
	fs.Parse(args)
	f, err := os.Open(*in)
	must(err)
	defer f.Close()
	of, err := os.Create(*out)
	must(err)
	defer of.Close()
	w := bufio.NewWriter(of)
	defer w.Flush()
	sc := bufio.NewScanner(f)
	sc.Buffer(make([]byte, 1<<20), 1<<24)
	n, bad, builds, runs := 0, 0, 0, 0
	fams := map[string]int{}
	for sc.Scan() {
		line := bytes.TrimSpace(sc.Bytes())
		if len(line) == 0 {
			continue
		}
		var c sibCase
		must(json.Unmarshal(line, &c))
		raw := append(json.RawMessage{}, line...)
		n++
		fams[c.Fam]++
		r1 := sibRule("S1", 1, c.C1, c.A1, c.Want1[0].Stores)
		r2 := sibRule("S2", 2, c.C2, c.A2, c.Want2[0].Stores)
		type cfg struct {
			name      string
			resources []string
			has1      bool
			has2      bool
			reload    bool
			mut       bool // a rule of another resource changes F.X in the first cycle: the stores must be those of the changed facts
		}
		cfgs := []cfg{{"S1 alone", []string{r1}, true, false, false, false}, {"S2 alone", []string{r2}, false, true, false, false},
			{"S1 then S2", []string{r1 + "\n" + r2}, true, true, false, false}, {"S2 then S1", []string{r2 + "\n" + r1}, true, true, false, false},
			{"two resources", []string{r1, r2}, true, true, false, false}, {"two resources reversed", []string{r2, r1}, true, true, false, false},
			{"among other rules", []string{fillers, r2 + "\n" + r1}, true, true, false, false},
			{"S1 alone, stored and loaded", []string{r1}, true, false, true, false},
			{"S1 then S2, stored and loaded", []string{r1 + "\n" + r2}, true, true, true, false},
			{"among other rules, stored and loaded", []string{fillers, r2, r1}, true, true, true, false},
			{"facts change while running", []string{mutRule, r1, r2}, true, true, false, true},
			{"facts change while running, stored and loaded", []string{mutRule + "\n" + fillers, r2, r1}, true, true, true, true}}
		report := func(cf cfg, fi int, what string, want, got interface{}) {
			bad++
			b, _ := json.Marshal(J{"line": raw, "fam": c.Fam, "config": cf.name, "fact": fi, "what": what, "want": want, "got": got, "s1": r1, "s2": r2})
			w.Write(b)
			w.WriteByte('\n')
		}
		// what a rule reads through the result of a method call is outside the working memory's sight (the rule author's Forget /
		// Changed duty, DESIGN.md 2.4): such pairs are not run against a rule that assigns the fact behind their back
		throughCalls := strings.Contains(r1+r2, "().") || strings.Contains(r1+r2, "()[")
	nextCfg:
		for _, cf := range cfgs {
			if cf.mut && throughCalls {
				continue
			}
			lib := ast.NewKnowledgeLibrary()
			rb := builder.NewRuleBuilder(lib)
			builds++
			for _, res := range cf.resources {
				if err := rb.BuildRuleFromResource("s", "1", pkg.NewBytesResource([]byte(res))); err != nil {
					report(cf, -1, "build", "accepted", err.Error())
					continue nextCfg
				}
			}
			if cf.reload {
				var buf bytes.Buffer
				if err := lib.StoreKnowledgeBaseToWriter(&buf, "s", "1"); err != nil {
					report(cf, -1, "store", "stored", err.Error())
					continue
				}
				lib = ast.NewKnowledgeLibrary()
				if _, err := lib.LoadKnowledgeBaseFromReader(&buf, true); err != nil {
					report(cf, -1, "load", "loaded", err.Error())
					continue
				}
			}
			kb, err := lib.NewKnowledgeBaseInstance("s", "1")
			if err != nil {
				report(cf, -1, "instantiate", "instance", err.Error())
				continue
			}
			for fi, fm := range c.Facts {
				runs++
				fact := mkSibFact(fm)
				dc := ast.NewDataContext()
				dc.Add("F", fact)
				eng := &engine.GruleEngine{MaxCycle: 10, ReturnErrOnFailedRuleEvaluation: true}
				res, err := eng.FetchMatchingRules(dc, kb)
				if err != nil {
					report(cf, fi, "fetch", "no error", err.Error())
					continue
				}
				matched := map[string]bool{}
				for _, r := range res {
					matched[r.RuleName] = true
				}
				if err := eng.Execute(dc, kb); err != nil {
					report(cf, fi, "execute", "no error", err.Error())
					continue
				}
				check := func(name string, key int64, has bool, before, want sibWant) {
					if !has {
						return
					}
					if matched[name] != before.Holds {
						report(cf, fi, name+" matches", before.Holds, matched[name])
						return
					}
					if !want.Holds {
						_, a := fact.I[key]
						_, b := fact.R[key]
						_, s := fact.St[key]
						if a || b || s {
							report(cf, fi, name+" stored although its condition is false", "nothing", "a value")
						}
						return
					}
					switch {
					case want.Stores.T == "s":
						if got, ok := fact.St[key]; !ok || got != want.Stores.S {
							report(cf, fi, name+" stores", want.Stores.S, got)
						}
					case want.Stores.V.F:
						if got, ok := fact.R[key]; !ok || got != want.Stores.V.float() {
							report(cf, fi, name+" stores", want.Stores.V.float(), got)
						}
					default:
						if got, ok := fact.I[key]; !ok || got != want.Stores.V.M {
							report(cf, fi, name+" stores", want.Stores.V.M, got)
						}
					}
				}
				if cf.mut {
					check("S1", 1, cf.has1, c.Want1[fi], c.Mut1[fi])
					check("S2", 2, cf.has2, c.Want2[fi], c.Mut2[fi])
				} else {
					check("S1", 1, cf.has1, c.Want1[fi], c.Want1[fi])
					check("S2", 2, cf.has2, c.Want2[fi], c.Want2[fi])
				}
			}
		}
	}
	st, _ := json.Marshal(J{"cases": n, "disagreements": bad, "knowledge_bases": builds, "runs": runs, "families": fams})
	fmt.Println("STATS", string(st))
}
