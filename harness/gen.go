package main

// Seeded random generator of rule sets over the documented GRL core. Programs are typed by construction
// and stay inside each property's quantifier (see DESIGN.md 2.4): values stay small, reader methods that
// look at a field a rule writes are announced with Forget/Changed, setter actions are followed by a
// Forget naming the fact, one container is never addressed through two different selector expressions.

import (
	"fmt"
	"math/rand"
	"strings"
)

// Profile tunes the generator towards the antecedent of one property.
type Profile struct {
	Name      string
	MinRules  int
	MaxRules  int
	UseTop    bool    // top-level variable N
	DynSel    float64 // probability that the program addresses F.Arr only through F.Arr[F.I]
	PMethod   float64 // probability of method atoms in integer/boolean positions
	PFault    float64 // probability of fault-prone atoms (F.Q.V with nil Q, % 0, Risky, bad index)
	PRetract  float64
	PComplete float64
	PSetter   float64
	PHeavy    float64 // counted method Heavy(...) shared between rules
	Saliences []int64
	MaxActs   int
	PTrueish  float64 // bias conditions towards being true (conflict sets with several candidates)
	PRemoved  float64 // probability that a rule is removed before instantiation
	PStr      float64
	POnce     float64 // probability that a rule gets a bare method-call action (no Forget) and retracts itself
	PDep      float64 // probability that an assignment targets a location some condition reads
	UseJSON   bool    // the JSON fact J (numbers are float64: no %, &, |, no method arguments, no map entries from them)
	PRepoint  float64 // probability of the action F.P = F.Spare
	OneHeavy  bool    // the program holds exactly one counted atom F.Heavy(<path>), shared by its rules (C13)
}

var profiles = map[string]*Profile{
	"core": {Name: "core", UseJSON: true, PRepoint: 0.05, PDep: 0.7, MinRules: 2, MaxRules: 4, UseTop: true, DynSel: 0.3, PMethod: 0.25, PRetract: 0.08, PComplete: 0.04,
		PSetter: 0.08, PHeavy: 0.1, Saliences: []int64{-2, -1, 0, 0, 1, 2}, MaxActs: 3, PStr: 0.15, PRemoved: 0.05, POnce: 0.15},
	"small": {Name: "small", PDep: 0.7, MinRules: 1, MaxRules: 2, UseTop: true, DynSel: 0.3, PMethod: 0.25, PRetract: 0.1, PComplete: 0.05,
		PSetter: 0.1, PHeavy: 0.2, Saliences: []int64{-1, 0, 1}, MaxActs: 2, PStr: 0.2, PRemoved: 0.1, POnce: 0.2},
	"salience": {Name: "salience", MinRules: 3, MaxRules: 5, UseTop: true, DynSel: 0.1, PMethod: 0.1, PRetract: 0.25, PComplete: 0.02,
		Saliences: []int64{-2147483648, -2147483647, -1, 0, 0, 1, 2, 2147483646, 2147483647, 7, 7, -7}, MaxActs: 2, PTrueish: 0.7},
	"control": {Name: "control", PDep: 0.4, MinRules: 2, MaxRules: 5, UseTop: true, DynSel: 0.1, PMethod: 0.1, PRetract: 0.45, PComplete: 0.25,
		Saliences: []int64{-1, 0, 0, 1, 5}, MaxActs: 4, PTrueish: 0.6, PRemoved: 0.15, POnce: 0.3},
	"budget": {Name: "budget", MinRules: 1, MaxRules: 4, UseTop: true, DynSel: 0.1, PMethod: 0.1, PRetract: 0.1, PComplete: 0.1,
		Saliences: []int64{-1, 0, 1}, MaxActs: 2, PTrueish: 0.8},
	"memo": {Name: "memo", UseJSON: true, PRepoint: 0.04, PDep: 0.7, MinRules: 2, MaxRules: 5, UseTop: true, DynSel: 0.2, PMethod: 0.5, PRetract: 0.1, PComplete: 0.02,
		PSetter: 0.15, PHeavy: 0.6, Saliences: []int64{-1, 0, 0, 1}, MaxActs: 3, PTrueish: 0.3},
	"memo13": {Name: "memo13", PDep: 0.6, MinRules: 2, MaxRules: 5, UseTop: true, DynSel: 0.3, PMethod: 0.4, PRetract: 0.1, PComplete: 0.02,
		PSetter: 0.1, PHeavy: 1, OneHeavy: true, PFault: 0.12, Saliences: []int64{-1, 0, 0, 1}, MaxActs: 3, PTrueish: 0.3, POnce: 0.1},
	"fault": {Name: "fault", UseJSON: true, PRepoint: 0.05, PDep: 0.5, MinRules: 2, MaxRules: 4, UseTop: true, DynSel: 0.4, PMethod: 0.3, PFault: 0.35, PRetract: 0.15, PComplete: 0.05,
		PSetter: 0.2, Saliences: []int64{-1, 0, 0, 1}, MaxActs: 3, PTrueish: 0.4, POnce: 0.2},
	"fetch": {Name: "fetch", MinRules: 2, MaxRules: 6, UseTop: true, DynSel: 0.2, PMethod: 0.3, PFault: 0.15, PRetract: 0.1, PComplete: 0.05,
		Saliences: []int64{-3, -1, 0, 0, 0, 1, 1, 9}, MaxActs: 2, PTrueish: 0.5, PRemoved: 0.25, PStr: 0.2},
}

type Gen struct {
	r         *rand.Rand
	p         *Profile
	dynArr    bool
	names     []string
	heavy     Expr    // the shared Heavy(...) atom of this program, if any
	heavyBool bool    // ... which is the boolean method HeavyB
	heavySel  int     // ... 1: HeavyV, the rules read elements of its result; 2: HeavyP, they read a member of it
	sharedB   Expr    // a boolean sub-expression shared between rules
	sharedSet *Action // a setter call statement that several rules of the program use verbatim
	used      []loc   // integer locations read by the conditions generated so far
}

func (g *Gen) chance(p float64) bool { return g.r.Float64() < p }
func (g *Gen) pick(n int) int        { return g.r.Intn(n) }

type loc struct {
	path  string
	exact bool // value has kind int64 exactly (needed for map entries and nothing else)
}

func (g *Gen) intLocs() []loc {
	ls := []loc{{"F.X", true}, {"F.Y", true}, {"F.Z", true}, {"F.H", true}, {"F.XX", true}, {"F.K", false}, {"F.W", false}, {"F.P.V", true},
		{"F.M[\"a\"]", true}, {"F.M[\"b\"]", true}, {"F.X", true}, {"F.Y", true}}
	if g.p.UseTop {
		ls = append(ls, loc{"N", true}, loc{"N", true})
	}
	if g.p.UseJSON {
		ls = append(ls, loc{"J.a", false}, loc{"J.o.n", false}, loc{"J.arr[1]", false}, loc{"J.a", false})
	}
	if g.dynArr {
		// (only ONE selector expression per container among the places rules read: another one, e.g. F.Arr[1 - F.I], would sooner
		//  or later denote an element that F.Arr[F.I + 1] or F.Arr[F.I] denotes too - the selector-aliasing known finding; computed
		//  selectors are exercised on the write-only F.Out instead)
		ls = append(ls, loc{"F.Arr[F.I]", true}, loc{"F.Arr[F.I]", true})
	} else {
		ls = append(ls, loc{"F.Arr[0]", true}, loc{"F.Arr[1]", true})
	}
	return ls
}

func (g *Gen) locPath(l loc) *Path {
	if l.path == "F.Arr[F.I]" {
		return P("F.Arr").With(Step{Sel: P("F.I"), SelT: "i"})
	}
	if l.path == "F.Arr[1-F.I]" {
		return P("F.Arr").With(Step{Sel: &Bin{Op: "-", L: CI(1), R: P("F.I")}, SelT: "i"})
	}
	return P(l.path)
}

// genInt returns an integer expression and whether its value is exactly of kind int64.
func (g *Gen) genInt(d int) (Expr, bool) {
	c := g.r.Float64()
	if d <= 0 || c < 0.35 {
		switch {
		case g.chance(0.35):
			return CI(int64(g.pick(5))), true
		case g.heavy != nil && !g.heavyBool && g.chance(0.5):
			return g.heavyUse(), true
		case g.chance(g.p.PFault):
			return g.faultInt(), true
		case g.chance(g.p.PMethod):
			return g.methodInt(d)
		default:
			ls := g.intLocs()
			l := ls[g.pick(len(ls))]
			g.used = append(g.used, l)
			return g.locPath(l), l.exact
		}
	}
	switch op := []string{"+", "-", "*", "+", "-", "%", "&", "|"}[g.pick(8)]; op {
	case "*":
		a, _ := g.genInt(d - 1)
		return &Bin{Op: "*", L: a, R: CI(int64(g.pick(3)))}, !usesJSON(a)
	case "%":
		a, _ := g.genInt(d - 1)
		if usesJSON(a) {
			return &Bin{Op: "-", L: a, R: CI(int64(g.pick(3)))}, false
		}
		return &Bin{Op: "%", L: a, R: CI(int64(2 + g.pick(3)))}, true
	default:
		a, _ := g.genInt(d - 1)
		b, _ := g.genInt(d - 1)
		if (op == "&" || op == "|") && (usesJSON(a) || usesJSON(b)) {
			op = "+" // JSON numbers are float64: the bitwise operators refuse them
		}
		return &Bin{Op: op, L: a, R: b}, !(usesJSON(a) || usesJSON(b))
	}
}

// usesJSON reports whether the expression reads the JSON fact (its numbers are float64).
func usesJSON(e interface{}) bool {
	switch x := e.(type) {
	case *Path:
		return x != nil && len(x.Steps) > 0 && x.Steps[0].Name == "J"
	case *Bin:
		return usesJSON(x.L) || usesJSON(x.R)
	case *Not:
		return usesJSON(x.E)
	case *Call:
		for _, a := range x.Args {
			if usesJSON(a) {
				return true
			}
		}
	case *Sel:
		return usesJSON(x.Base) || (x.I != nil && usesJSON(x.I))
	}
	return false
}

// heavyUse is one use of the program's counted integer atom: the call itself, or (HeavyV / HeavyP) an element / the member
// of its result - different elements in different places, all of them served by the one remembered call.
func (g *Gen) heavyUse() Expr {
	c, _ := g.heavy.(*Call)
	switch g.heavySel {
	case 1:
		return &Sel{Base: c, I: CI(int64(g.pick(2)))}
	case 2:
		return &Sel{Base: c, Member: "V"}
	}
	return g.heavy
}

func (g *Gen) methodInt(d int) (Expr, bool) {
	switch g.pick(5) {
	case 0:
		return &Call{Recv: P("F"), Fn: "GetX"}, true
	case 1:
		return &Call{Recv: P("F"), Fn: "GetPV"}, true
	case 2:
		return &Call{Recv: P("F"), Fn: "Sum", Args: []Expr{g.exactInt(d - 1), g.exactInt(d - 1)}}, true
	case 3:
		if g.p.OneHeavy && !g.heavyBool {
			return g.heavyUse(), true
		}
		if g.p.OneHeavy {
			return CI(int64(g.pick(4))), true
		}
		return &Call{Recv: P("F"), Fn: "Heavy", Args: []Expr{g.exactInt(d - 1)}}, true
	default:
		return &Call{Recv: P([]string{"F.S", "F.T", "F.P.S"}[g.pick(3)]), Fn: "Len"}, false
	}
}

// exactInt generates an integer expression whose value has kind int64 exactly: reflect.Call panics on
// int / int32 arguments, and map entries accept only the element type.
func (g *Gen) exactInt(d int) Expr {
	for try := 0; try < 8; try++ {
		e, ex := g.genInt(d)
		if !usesJSON(e) {
			return mkExact(e, ex)
		}
	}
	return CI(int64(g.pick(4)))
}

func mkExact(e Expr, ex bool) Expr {
	if ex {
		return e
	}
	return &Bin{Op: "+", L: e, R: CI(0)}
}

func (g *Gen) faultInt() Expr {
	switch g.pick(6) {
	case 0:
		return P("F.Q.V") // nil pointer when Q is nil
	case 1:
		if g.dynArr {
			return P("F.Arr").With(Step{Sel: &Bin{Op: "+", L: P("F.I"), R: CI(1)}, SelT: "i"}) // out of range when I = 1
		}
		return P("F.Arr").With(Step{Sel: &Bin{Op: "+", L: P("F.I"), R: CI(2)}, SelT: "i"}) // always out of range
	case 2:
		return P("F.M[\"zz\"]") // missing key
	case 3:
		a, _ := g.genInt(0)
		return &Bin{Op: "%", L: a, R: &Bin{Op: "-", L: P("F.Z"), R: P("F.Z")}} // % 0
	case 4:
		return &Call{Recv: P("F"), Fn: "Risky", Args: []Expr{P([]string{"F.X", "F.Y", "F.Z"}[g.pick(3)])}}
	default:
		return &Bin{Op: "%", L: P("F.X"), R: P("F.Y")} // % by a field that may be zero
	}
}

func (g *Gen) genStr(d int) Expr {
	if d <= 0 || g.chance(0.6) {
		if g.chance(0.4) {
			return CS([]string{"", "a", "b", "ab"}[g.pick(4)])
		}
		return P([]string{"F.S", "F.T", "F.P.S"}[g.pick(3)])
	}
	return &Bin{Op: "+", L: g.genStr(d - 1), R: g.genStr(d - 1), Str: true}
}

func (g *Gen) genBool(d int) Expr {
	if g.heavy != nil && g.heavyBool && g.chance(0.35) {
		if g.chance(0.25) {
			return &Not{E: g.heavy, Atom: true}
		}
		return g.heavy
	}
	c := g.pick(12)
	if g.sharedB != nil && d < 2 && g.chance(0.25) {
		return g.sharedB
	}
	switch {
	case d <= 0 || c < 5:
		if g.chance(g.p.PStr) {
			op := []string{"==", "!="}[g.pick(2)]
			return &Bin{Op: op, L: g.genStr(1), R: g.genStr(1)}
		}
		op := []string{"==", "!=", "<", "<=", ">", ">="}[g.pick(6)]
		a, _ := g.genInt(1)
		b, _ := g.genInt(1)
		if g.chance(g.p.PTrueish) {
			// trivially true-ish comparison keeps several rules in the conflict set
			return &Bin{Op: ">=", L: a, R: &Bin{Op: "-", L: a, R: CI(int64(g.pick(2)))}}
		}
		if g.chance(0.12) {
			// a whole-valued real literal (2.0) next to the integer literals of the same value (2) other places of the rule set
			// hold - in % and &, as selectors, as method arguments - where the kind matters
			b = &Const{T: "r", I: int64(g.pick(5))}
		}
		return &Bin{Op: op, L: a, R: b}
	case c == 5:
		return &Not{E: g.genBool(d - 1)}
	case c == 6:
		bl := []string{"F.B", "F.C"}
		if g.p.UseJSON {
			bl = append(bl, "J.t")
		}
		if g.chance(0.5) {
			return P(bl[g.pick(len(bl))])
		}
		return &Not{E: P(bl[g.pick(len(bl))]), Atom: true}
	case c == 7 && g.chance(g.p.PMethod*2):
		call := &Call{Recv: P("F"), Fn: "IsPos", Args: []Expr{g.exactInt(1)}}
		if g.chance(0.2) {
			// the clock in a condition: an argument list without any variable, whose value is new in every call
			call = &Call{Recv: P("F"), Fn: "Fresh", Args: []Expr{&NowE{}}}
		}
		if g.chance(0.3) {
			return &Not{E: call, Atom: true}
		}
		return call
	case c == 8:
		return &Bin{Op: []string{"==", "!="}[g.pick(2)], L: P([]string{"F.B", "F.C"}[g.pick(2)]), R: CB(g.chance(0.5))}
	default:
		op := []string{"&&", "||"}[g.pick(2)]
		return &Bin{Op: op, L: g.genBool(d - 1), R: g.genBool(d - 1)}
	}
}

func (g *Gen) genAction(self string) *Action {
	c := g.r.Float64()
	switch {
	case c < g.p.PRetract:
		n := g.names[g.pick(len(g.names))]
		if g.chance(0.4) {
			n = self
		}
		if g.chance(0.1) {
			n = "Nope"
		}
		return &Action{Kind: "retract", Name: n}
	case c < g.p.PRetract+g.p.PComplete:
		return &Action{Kind: "complete"}
	case c < g.p.PRetract+g.p.PComplete+g.p.PSetter:
		// (the same call statement in several rules is ONE node of the blueprint: every rule's copy must stay wired in an instance)
		if g.sharedSet != nil && g.chance(0.5) {
			cp := *g.sharedSet
			return &cp
		}
		a := &Action{Kind: "set", Name: []string{"SetX", "SetY"}[g.pick(2)], E: g.exactInt(1)}
		if g.p.PFault > 0 && g.chance(0.4) {
			// a method without a result that panics for one argument value: the failure of a call statement itself
			a = &Action{Kind: "set", Name: "SetRisky", E: g.exactInt(1)}
			if g.chance(0.5) {
				a.E = P("F.X")
			}
		}
		if g.sharedSet == nil {
			g.sharedSet = a
		}
		return a
	}
	if g.chance(g.p.PRepoint) {
		return &Action{Kind: "repoint"}
	}
	if g.chance(g.p.PFault * 0.4) {
		// an assignment whose target may not exist: element out of range, field behind a nil pointer
		e, _ := g.genInt(1)
		var t *Path
		switch g.pick(5) {
		case 3:
			// a selector on a place that is no collection: the assignment must fail like a read of it does
			t = P([]string{"F.Z", "F.S", "F.P"}[g.pick(3)]).With(Step{Sel: CI(0), SelT: "i"})
			return &Action{Kind: "asg", Path: t, Form: "=", E: e}
		case 0:
			off := int64(2)
			if g.dynArr {
				off = 1
			}
			t = P("F.Arr").With(Step{Sel: &Bin{Op: "+", L: P("F.I"), R: CI(off)}, SelT: "i"})
		case 1:
			t = P("F.Q.V")
		default:
			t = P("F.P.V")
		}
		return &Action{Kind: "asg", Path: t, Form: []string{"=", "+="}[g.pick(2)], E: e}
	}
	if g.dynArr && g.chance(0.2) {
		// a write-only element addressed through a computed selector: nothing but this assignment ever resolves it
		sel := []Expr{&Bin{Op: "-", L: CI(1), R: P("F.I")}, &Bin{Op: "+", L: P("F.I"), R: CI(0)}, P("F.I")}[g.pick(3)]
		return &Action{Kind: "asg", Path: P("F.Out").With(Step{Sel: sel, SelT: "i"}), Form: "=", E: g.exactInt(1)}
	}
	switch k := g.pick(10); {
	case k == 0:
		bl := []string{"F.B", "F.C"}
		if g.p.UseJSON {
			bl = append(bl, "J.t")
		}
		return &Action{Kind: "asg", Path: P(bl[g.pick(len(bl))]), Form: "=", E: g.boolRHS()}
	case k == 1 && g.p.PStr > 0:
		form := []string{"=", "+="}[g.pick(2)]
		var e Expr = CS([]string{"", "a", "b"}[g.pick(3)])
		if form == "=" && g.chance(0.5) {
			e = g.genStr(1)
		}
		return &Action{Kind: "asg", Path: P([]string{"F.S", "F.T", "F.P.S"}[g.pick(3)]), Form: form, E: e, Str: true}
	case k == 2 && g.dynArr:
		return &Action{Kind: "asg", Path: P("F.I"), Form: "=", E: CI(int64(g.pick(2)))}
	default:
		ls := g.intLocs()
		l := ls[g.pick(len(ls))]
		if len(g.used) > 0 && g.chance(g.p.PDep) {
			l = g.used[g.pick(len(g.used))]
		}
		form := []string{"=", "=", "+=", "-=", "*="}[g.pick(5)]
		var e Expr
		if form == "*=" {
			e = CI(int64(g.pick(3)))
		} else {
			e, _ = g.genInt(1)
		}
		if strings.HasPrefix(l.path, "F.M") {
			if form != "*=" {
				e = g.exactInt(1) // a map entry takes exactly its element type: no int / int32 / float64 (JSON) values
			}
		} else if l.path == "N" && form != "*=" {
			e = g.exactInt(1) // a context variable takes the kind of the stored value: keep it an int64 (no JSON float, no int32)
		}
		return &Action{Kind: "asg", Path: g.locPath(l), Form: form, E: e}
	}
}

func (g *Gen) boolRHS() Expr {
	if g.chance(0.5) {
		return CB(g.chance(0.5))
	}
	return g.genBool(1)
}

// readersOf lists what a Forget must name after loc was written behind a reader method.
var readerOf = map[string]string{"F.X": "F.GetX()", "F.P.V": "F.GetPV()"}

func usesCall(e interface{}, fn string) bool {
	switch x := e.(type) {
	case *Call:
		if x.Fn == fn {
			return true
		}
		for _, a := range x.Args {
			if usesCall(a, fn) {
				return true
			}
		}
		return usesCall(x.Recv, fn)
	case *Sel:
		return usesCall(x.Base, fn) || (x.I != nil && usesCall(x.I, fn))
	case *Bin:
		return usesCall(x.L, fn) || usesCall(x.R, fn)
	case *Not:
		return usesCall(x.E, fn)
	case *Path:
		if x == nil {
			return false
		}
		for _, s := range x.Steps {
			if s.Sel != nil && usesCall(s.Sel, fn) {
				return true
			}
		}
	}
	return false
}

func (p *Program) usesCall(fn string) bool {
	for _, r := range p.Rules {
		if usesCall(r.When, fn) {
			return true
		}
		for _, a := range r.Then {
			if a.E != nil && usesCall(a.E, fn) {
				return true
			}
			if a.Path != nil && usesCall(a.Path, fn) {
				return true
			}
		}
	}
	return false
}

// discipline inserts the Forget/Changed calls the documentation makes the rule author's duty.
func (g *Gen) discipline(p *Program) {
	getx, getpv := p.usesCall("GetX"), p.usesCall("GetPV")
	for _, r := range p.Rules {
		out := []*Action{}
		for _, a := range r.Then {
			out = append(out, a)
			switch a.Kind {
			case "set":
				if a.Once {
					break
				}
				// a method-call action is itself remembered: name the fact so that it runs again next time
				out = append(out, &Action{Kind: []string{"forget", "changed"}[g.pick(2)], Name: "F"})
			case "repoint":
				if getpv {
					out = append(out, &Action{Kind: []string{"forget", "changed"}[g.pick(2)], Name: []string{"F", "F.GetPV()"}[g.pick(2)]})
				}
			case "asg":
				t := a.Path.GRL()
				if (t == "F.X" && getx) || (t == "F.P.V" && getpv) {
					k := []string{"forget", "changed"}[g.pick(2)]
					if g.chance(0.3) {
						out = append(out, &Action{Kind: k, Name: "F"})
					} else {
						out = append(out, &Action{Kind: k, Name: readerOf[t]})
					}
				}
			}
		}
		r.Then = out
	}
	// SetX / SetY write F.X / F.Y: the Forget("F") above covers every reader.
}

// Program generates one rule set.
func (g *Gen) Program() *Program {
	n := g.p.MinRules + g.pick(g.p.MaxRules-g.p.MinRules+1)
	g.dynArr = g.chance(g.p.DynSel)
	g.names = nil
	for i := 0; i < n; i++ {
		g.names = append(g.names, fmt.Sprintf("R%d", i))
	}
	g.heavy, g.sharedB, g.sharedSet, g.heavySel = nil, nil, nil, 0
	if g.chance(g.p.PHeavy) || g.p.OneHeavy {
		ls := g.intLocs()
		l := ls[g.pick(len(ls))]
		for strings.HasPrefix(l.path, "J.") { // a method argument must be an int64: not a JSON number
			l = ls[g.pick(len(ls))]
		}
		g.heavy = &Call{Recv: P("F"), Fn: "Heavy", Args: []Expr{mkExact(g.locPath(l), l.exact)}}
		g.heavySel = 0
		if g.heavyBool = g.p.OneHeavy && g.chance(0.3); !g.heavyBool && g.p.OneHeavy && g.chance(0.35) {
			g.heavySel = 1 + g.pick(2)
			g.heavy = &Call{Recv: P("F"), Fn: []string{"HeavyV", "HeavyP"}[g.heavySel-1], Args: []Expr{mkExact(g.locPath(l), l.exact)}}
		}
		if g.heavyBool {
			// the counted atom is a boolean method: it can be a whole condition (when F.HeavyB(x)) as well as an operand
			g.heavy = &Call{Recv: P("F"), Fn: "HeavyB", Args: []Expr{mkExact(g.locPath(l), l.exact)}}
		}
	}
	if g.chance(0.4) {
		g.sharedB = g.genBool(1)
	}
	p := &Program{}
	g.used = nil
	stamped := false
	whens := make([]Expr, n)
	for i := 0; i < n; i++ {
		whens[i] = g.genBool(2)
	}
	for i := 0; i < n; i++ {
		r := &Rule{Name: g.names[i], When: whens[i]}
		if g.chance(0.8) {
			r.HasSal = true
			r.Sal = g.p.Saliences[g.pick(len(g.p.Saliences))]
		}
		if g.chance(0.3) {
			r.Desc = fmt.Sprintf("rule number %d", i)
		}
		na := 1 + g.pick(g.p.MaxActs)
		for j := 0; j < na; j++ {
			r.Then = append(r.Then, g.genAction(r.Name))
		}
		r.Removed = g.chance(g.p.PRemoved)
		r.Bare = g.chance(0.5)
		for _, a := range r.Then {
			a.Bare = g.chance(0.5)
		}
		if g.chance(g.p.POnce) {
			// F.Mark(<unique constant>) runs once per call: the rule retracts itself, the next call starts afresh
			once := &Action{Kind: "set", Name: "Mark", E: CI(int64(i + 1)), Once: true}
			if !stamped && g.chance(0.4) {
				// (one per program: a method-call statement is itself remembered, the same text in two rules would run once)
				once, stamped = &Action{Kind: "set", Name: "Stamp", E: &NowE{}, Once: true}, true
			}
			pos := g.pick(len(r.Then) + 1)
			r.Then = append(r.Then[:pos], append([]*Action{once}, r.Then[pos:]...)...)
			r.Then = append(r.Then, &Action{Kind: "retract", Name: r.Name})
		}
		p.Rules = append(p.Rules, r)
	}
	g.discipline(p)
	return p
}

// World generates an initial fact state.
func (g *Gen) World() *World {
	v := func() int64 { return int64(g.pick(5)) }
	f := &Fact{X: v(), Y: v(), Z: v(), XX: v(), H: v(), K: int(v()), W: int32(v()), B: g.chance(0.5), C: g.chance(0.5),
		S: []string{"", "a", "b", "ab"}[g.pick(4)], T: []string{"", "a", "b"}[g.pick(3)], I: int64(g.pick(2)),
		P: &Sub{V: v(), S: []string{"", "a"}[g.pick(2)]}, Spare: &Sub{V: 7, S: "sp"}, Arr: []int64{v(), v()}, Out: []int64{0, 0}, M: map[string]int64{"a": v(), "b": v()}}
	if g.p.PFault > 0 {
		if g.chance(0.5) {
			f.Q = &Sub{V: v()}
		}
		if g.chance(0.3) {
			f.X = 13
		}
		if g.chance(0.2) {
			f.P = nil
		}
	} else {
		f.Q = &Sub{V: v()}
	}
	w := &World{F: f, N: v(), HasN: g.p.UseTop}
	if g.p.UseJSON {
		w.J = &JFact{A: v(), Arr: []int64{v(), v()}, T: g.chance(0.5), S: []string{"", "a", "b"}[g.pick(3)]}
		w.J.O.N = v()
	}
	return w
}
