package main

// C05 / C18: replays the expression cases TLC exports from spec/MCExpr.tla on the real builder + engine.
// Every case is printed in several styles (flat = grouping left to the parser, fully parenthesised, spacing,
// comments, keyword case) and its value is captured by a typed sink method, so the kind is checked as well.

import (
	"bufio"
	"bytes"
	"encoding/json"
	"flag"
	"fmt"
	"math/big"
	"os"
	"regexp"
	"strconv"
	"strings"

	"github.com/hyperjumptech/grule-rule-engine/ast"
	"github.com/hyperjumptech/grule-rule-engine/builder"
	"github.com/hyperjumptech/grule-rule-engine/engine"
	"github.com/hyperjumptech/grule-rule-engine/pkg"
)

// Sink receives the value of an expression; the parameter type checks its kind (reflect.Call panics otherwise).
type Sink struct {
	Strs map[int64]string // receivers of string built-ins reached through a variable path
	T    map[int64]map[int64]int
	Zero int64
	I    map[int64]int64
	R    map[int64]float64
	B    map[int64]bool
	S    map[int64]string
}

func newSink() *Sink {
	return &Sink{Strs: sinkStrs, T: map[int64]map[int64]int{}, I: map[int64]int64{}, R: map[int64]float64{}, B: map[int64]bool{}, S: map[int64]string{}}
}
func (s *Sink) PutI(k, v int64)         { s.I[k] = v }
func (s *Sink) PutR(k int64, v float64) { s.R[k] = v }
func (s *Sink) PutB(k int64, v bool)    { s.B[k] = v }
func (s *Sink) PutS(k int64, v string)  { s.S[k] = v }

// Touch records that it was evaluated (for key k, operand id) and yields true: makes short circuit observable.
func (s *Sink) Touch(k, id int64) bool {
	if s.T[k] == nil {
		s.T[k] = map[int64]int{}
	}
	s.T[k][id]++
	return true
}

// fact methods whose result depends on the order of their arguments (fixed, variadic, mixed kinds)
func (s *Sink) Sub2(a, b int64) int64 { return a - b }
func (s *Sink) Weighted(xs ...int64) int64 {
	var t int64
	for i, x := range xs {
		t += int64(i+1) * x
	}
	return t
}
func (s *Sink) Cat(parts ...string) string { return strings.Join(parts, "") }
func (s *Sink) Lead(a int64, rest ...int64) int64 {
	t := 10 * a
	for _, r := range rest {
		t += r
	}
	return t
}
func (s *Sink) Mixed(a int64, str string, b bool) int64 {
	r := a*100 + int64(len(str))*10
	if b {
		r++
	}
	return r
}

// Sink2 is a second receiver type with the same method names (and the same functions) at other positions of its method set:
// which type is called first must not matter to the other.
type Sink2 struct{}

func (s *Sink2) Aardvark() int64                         { return -1 }
func (s *Sink2) Bumblebee(x int64) int64                 { return -x }
func (s *Sink2) Sub2(a, b int64) int64                   { return a - b }
func (s *Sink2) Weighted(xs ...int64) int64              { return (&Sink{}).Weighted(xs...) }
func (s *Sink2) Cat(parts ...string) string              { return strings.Join(parts, "") }
func (s *Sink2) Lead(a int64, rest ...int64) int64       { return (&Sink{}).Lead(a, rest...) }
func (s *Sink2) Mixed(a int64, str string, b bool) int64 { return (&Sink{}).Mixed(a, str, b) }
func (s *Sink2) Zebra() int64                            { return -2 }

// receivers of the current batch (read-only during a run)
var sinkStrs = map[int64]string{}

type tval struct {
	Cp  []int       `json:"cp"`
	B   bool        `json:"b"`
	T   string      `json:"t"`
	N   int64       `json:"n"`
	D   int64       `json:"d"`
	V   interface{} `json:"v"`
	S   string      `json:"s"`
	M   int64       `json:"m"`
	E10 int64       `json:"e10"`
	E2  int64       `json:"e2"`
}

type enode struct {
	// leaf
	T  string      `json:"t"`
	ID int64       `json:"id"`
	N  int64       `json:"n"`
	V  interface{} `json:"v"`
	S  string      `json:"s"`
	// inner
	K  string `json:"k"`
	Op string `json:"op"`
	L  *enode `json:"l"`
	R  *enode `json:"r"`
	E  *enode `json:"e"`
}

type litRec struct {
	Base int   `json:"base"`
	Neg  bool  `json:"neg"`
	Int  []int `json:"int"`
	Frac []int `json:"frac"`
	Dot  bool  `json:"dot"`
	Exp  struct {
		Has bool `json:"has"`
		V   int  `json:"v"`
	} `json:"exp"`
}

type strPiece struct {
	K string `json:"k"`
	C int    `json:"c"`
}

type exprCase struct {
	Touched  []int64    `json:"touched"`
	Style    string     `json:"style"`
	Pieces   []strPiece `json:"pieces"`
	Fn       string     `json:"fn"`
	Recv     []int      `json:"recv"`
	Args     []tval     `json:"args"`
	Fam      string     `json:"fam"`
	Toks     []*enode   `json:"toks"`
	Tree     *enode     `json:"tree"`
	Want     tval       `json:"want"`
	ImplWant *tval      `json:"implWant"`
	Amp      bool       `json:"amp"`
	Typ      string     `json:"typ"`
	Lit      *litRec    `json:"lit"`
}

var opSym = map[string]string{"mul": "*", "div": "/", "mod": "%", "add": "+", "sub": "-", "band": "&", "bor": "|",
	"eq": "==", "ne": "!=", "lt": "<", "le": "<=", "gt": ">", "ge": ">=", "and": "&&", "or": "||"}

func leafText(n *enode, style int) string {
	switch n.T {
	case "i":
		return strconv.FormatInt(n.N, 10)
	case "b":
		b := n.V.(bool)
		words := map[bool][]string{true: {"true", "TRUE", "True", "tRuE"}, false: {"false", "FALSE", "False", "fAlSe"}}
		return words[b][style%4]
	case "s":
		if style%2 == 0 {
			return strconv.Quote(n.S)
		}
		return "'" + n.S + "'"
	case "fail":
		return "(1 % S.Zero)"
	case "touch":
		return fmt.Sprintf("S.Touch(%d, %d)", curKey, n.ID)
	}
	panic("leaf kind " + n.T)
}

// key of the job being printed (operands that record their evaluation carry it)
var curKey int64

func strLitText(c *exprCase) string {
	q := map[string]string{"dq": `"`, "sq": "'"}[c.Style]
	var b strings.Builder
	b.WriteString(q)
	for _, p := range c.Pieces {
		switch p.K {
		case "lit":
			b.WriteByte(byte(p.C))
		case "n":
			b.WriteString(`\n`)
		case "t":
			b.WriteString(`\t`)
		case "bs":
			b.WriteString(`\\`)
		case "q":
			b.WriteString(`\` + q)
		case "hex":
			fmt.Fprintf(&b, `\x%02x`, p.C)
		case "oct":
			fmt.Fprintf(&b, `\%03o`, p.C)
		case "u":
			fmt.Fprintf(&b, `\u%04x`, p.C)
		}
	}
	b.WriteString(q)
	return b.String()
}

// full prints the tree fully parenthesised.
func full(n *enode, style int) string {
	if n.K == "" {
		return leafText(n, style)
	}
	if n.K == "not" {
		if n.E.K == "" && n.E.T != "fail" {
			return "!" + leafText(n.E, style)
		}
		inner := full(n.E, style)
		if strings.HasPrefix(inner, "(") {
			return "!" + inner
		}
		return "!(" + inner + ")"
	}
	return "(" + full(n.L, style) + sep(style) + opSym[n.Op] + sep(style) + full(n.R, style) + ")"
}

func sep(style int) string {
	switch style % 4 {
	case 1:
		return ""
	case 2:
		return "\n\t"
	case 3:
		return " /* c */ "
	}
	return " "
}

func flat(toks []*enode, style int) string {
	var b strings.Builder
	for i, t := range toks {
		if i > 0 {
			b.WriteString(sep(style))
		}
		if t.K == "op" {
			b.WriteString(opSym[t.V.(string)])
		} else {
			b.WriteString(leafText(t, style))
		}
	}
	return b.String()
}

func cpString(cp []int) string {
	b := make([]byte, len(cp))
	for i, c := range cp {
		b[i] = byte(c)
	}
	return string(b)
}

func dyadicText(n, d int64) string {
	f := float64(n) / float64(d)
	s := strconv.FormatFloat(f, 'f', -1, 64)
	if !strings.Contains(s, ".") {
		s += ".0"
	}
	return s
}

func argText(a tval, style int) string {
	switch a.T {
	case "s":
		if style%2 == 0 {
			return strconv.Quote(cpString(a.Cp))
		}
		return "'" + cpString(a.Cp) + "'"
	case "i":
		return strconv.FormatInt(a.N, 10)
	case "b":
		return strconv.FormatBool(a.B)
	case "r":
		return dyadicText(a.N, a.D)
	}
	panic("argument kind " + a.T)
}

// builtinText prints a built-in call; string receivers alternate between a constant and a map entry of the fact.
func builtinText(c *exprCase, key int64, style int) string {
	args := make([]string, len(c.Args))
	for i, a := range c.Args {
		args[i] = argText(a, style+i)
	}
	list := strings.Join(args, ","+sep(style))
	switch c.Fn {
	case "Abs", "Floor", "Ceil", "Round", "Max", "Min":
		return c.Fn + "(" + list + ")"
	case "Sub2", "Weighted", "Cat", "Mixed", "Lead":
		return []string{"S.", "S2."}[int(key)%2] + c.Fn + "(" + list + ")"
	}
	recv := strconv.Quote(cpString(c.Recv))
	if style%2 == 1 {
		sinkStrs[key] = cpString(c.Recv)
		recv = fmt.Sprintf("S.Strs[%d]", key)
	}
	if c.Fn == "SplitLen" {
		return recv + ".Split(" + list + ").Len()"
	}
	return recv + "." + c.Fn + "(" + list + ")"
}

const hexd = "0123456789abcdef"

func litText(l *litRec, style int) string {
	var b strings.Builder
	if l.Neg {
		b.WriteString("-")
	}
	dig := func(ds []int) {
		for _, d := range ds {
			c := hexd[d]
			if style%2 == 1 && c >= 'a' {
				c -= 32
			}
			b.WriteByte(c)
		}
	}
	if l.Base == 16 {
		b.WriteString([]string{"0x", "0X"}[style%2])
	}
	dig(l.Int)
	if l.Dot {
		b.WriteString(".")
	}
	dig(l.Frac)
	if l.Exp.Has {
		if l.Base == 16 {
			b.WriteString([]string{"p", "P"}[style%2])
		} else {
			b.WriteString([]string{"e", "E"}[style%2])
		}
		if l.Exp.V < 0 {
			b.WriteString("-" + strconv.Itoa(-l.Exp.V))
		} else if style%3 == 0 {
			b.WriteString("+" + strconv.Itoa(l.Exp.V))
		} else {
			b.WriteString(strconv.Itoa(l.Exp.V))
		}
	}
	return b.String()
}

func kw(word string, style int) string {
	if style%4 == 3 {
		return strings.ToUpper(word)
	}
	if style%4 == 2 {
		return strings.ToUpper(word[:1]) + word[1:]
	}
	return word
}

type job struct {
	key   int64
	text  string
	put   string // PutI PutR PutB PutS
	want  tval
	route string
	c     *exprCase
	raw   json.RawMessage
}

var reRuleName = regexp.MustCompile(`rule (C\d+)`)

// evalBatch builds one knowledge base holding one rule per job and returns, per job key, "" or the error text.
func evalBatch(jobs []job, style int) (*Sink, map[int64]string) {
	errs := map[int64]string{}
	var grl strings.Builder
	for _, j := range jobs {
		fmt.Fprintf(&grl, "%s C%d %s %d { %s true %s S.%s(%d, %s); Retract(\"C%d\"); }\n", kw("rule", style), j.key, kw("salience", style), 1000000-j.key,
			kw("when", style), kw("then", style), j.put, j.key, j.text, j.key)
	}
	lib := ast.NewKnowledgeLibrary()
	err := builder.NewRuleBuilder(lib).BuildRuleFromResource("e", "1", pkg.NewBytesResource([]byte(grl.String())))
	if err != nil {
		if len(jobs) == 1 {
			errs[jobs[0].key] = "build: " + err.Error()
			return newSink(), errs
		}
		// find the texts the builder refuses, one by one; the accepted ones are then built and run TOGETHER again, so that what one
		// rule's text means is also checked in the company of the others (literals, constants and sub-expressions are pooled)
		var accepted []job
		for _, j := range jobs {
			_, e1 := evalBatch([]job{j}, style)
			if msg, refused := e1[j.key]; refused && strings.HasPrefix(msg, "build: ") {
				errs[j.key] = msg
			} else {
				accepted = append(accepted, j)
			}
		}
		if len(accepted) == len(jobs) {
			for _, j := range jobs {
				errs[j.key] = "build (each rule is accepted alone, not together): " + err.Error()
			}
			return newSink(), errs
		}
		if len(accepted) == 0 {
			return newSink(), errs
		}
		s, e2 := evalBatch(accepted, style)
		for k, v := range e2 {
			errs[k] = v
		}
		return s, errs
	}
	kb, err := lib.NewKnowledgeBaseInstance("e", "1")
	if err != nil {
		for _, j := range jobs {
			errs[j.key] = "instance: " + err.Error()
		}
		return newSink(), errs
	}
	eng := &engine.GruleEngine{MaxCycle: uint64(len(jobs) + 2)}
	for {
		s := newSink()
		dc := ast.NewDataContext()
		dc.Add("S", s)
		dc.Add("S2", &Sink2{})
		err := eng.Execute(dc, kb)
		if err == nil {
			return s, errs
		}
		m := reRuleName.FindStringSubmatch(err.Error())
		if m == nil {
			for _, j := range jobs {
				if _, ok := errs[j.key]; !ok {
					errs[j.key] = "execute: " + err.Error()
				}
			}
			return s, errs
		}
		k, _ := strconv.ParseInt(m[1][1:], 10, 64)
		if _, dup := errs[k]; dup {
			return s, errs
		}
		errs[k] = "execute: " + err.Error()
		kb.RemoveRuleEntry(m[1])
	}
}

func litFloat(w tval) float64 {
	r := new(big.Rat).SetInt64(w.M)
	ten := big.NewRat(10, 1)
	two := big.NewRat(2, 1)
	mulPow := func(base *big.Rat, e int64) {
		for i := int64(0); i < e; i++ {
			r.Mul(r, base)
		}
		for i := int64(0); i > e; i-- {
			r.Quo(r, base)
		}
	}
	mulPow(ten, w.E10)
	mulPow(two, w.E2)
	f, _ := r.Float64()
	return f
}

func cmdExprReplay(args []string) {
	fs := flag.NewFlagSet("expr-replay", flag.ExitOnError)
	in := fs.String("in", "cases.ndjson", "cases exported by TLC")
	out := fs.String("out", "mismatch.ndjson", "disagreements")
	batch := fs.Int("batch", 100, "rules per knowledge base")
	fs.Parse(args)
	f, err := os.Open(*in)
	must(err)
	defer f.Close()
	of, err := os.Create(*out)
	must(err)
	defer of.Close()
	w := bufio.NewWriter(of)
	defer w.Flush()
	// every process first calls each method of the two receiver types in a fixed order (S, then S2): what a later call
	// computes may not depend on which type was served first, and a single replayed case then sees the same history
	func() {
		lib := ast.NewKnowledgeLibrary()
		must(builder.NewRuleBuilder(lib).BuildRuleFromResource("w", "1", pkg.NewBytesResource([]byte(
			`rule Warm { when true then S.PutI(0 - 1, S.Sub2(1, 2) + S.Weighted(1, 2) + S.Lead(1) + S.Mixed(1, "a", true) + S.Cat("a").Len());
			 S.PutI(0 - 2, S2.Sub2(1, 2) + S2.Weighted(1, 2) + S2.Lead(1) + S2.Mixed(1, "a", true) + S2.Cat("a").Len()); Retract("Warm"); }`))))
		kb, err := lib.NewKnowledgeBaseInstance("w", "1")
		must(err)
		dc := ast.NewDataContext()
		dc.Add("S", newSink())
		dc.Add("S2", &Sink2{})
		_ = (&engine.GruleEngine{MaxCycle: 3}).Execute(dc, kb)
	}()
	sc := bufio.NewScanner(f)
	sc.Buffer(make([]byte, 1<<20), 1<<24)
	var jobs []job
	n, bad, evals := 0, 0, 0
	fams := map[string]int{}
	var key int64
	putOf := map[string]string{"i": "PutI", "r": "PutR", "b": "PutB", "s": "PutS", "lit": "PutR"}
	flush := func(style int) {
		if len(jobs) == 0 {
			return
		}
		s, errs := evalBatch(jobs, style)
		withCompany := 0
		for ji, j := range jobs {
			evals++
			got := ""
			ok := false
			if e, failed := errs[j.key]; failed {
				got = "error: " + e
				ok = j.want.T == "err"
			} else {
				switch j.want.T {
				case "i":
					v, has := s.I[j.key]
					got, ok = fmt.Sprint(v), has && v == j.want.N
				case "r":
					v, has := s.R[j.key]
					got, ok = strconv.FormatFloat(v, 'g', -1, 64), has && v == float64(j.want.N)/float64(j.want.D)
				case "lit":
					v, has := s.R[j.key]
					got, ok = strconv.FormatFloat(v, 'g', -1, 64), has && v == litFloat(j.want)
				case "b":
					v, has := s.B[j.key]
					wantB := j.want.B
					if j.c.Fam != "builtin" {
						wantB = j.want.V.(bool)
					}
					got, ok = fmt.Sprint(v), has && v == wantB
				case "s":
					v, has := s.S[j.key]
					wantS := j.want.S
					if j.c.Fam == "builtin" {
						wantS = cpString(j.want.Cp)
					}
					got, ok = v, has && v == wantS
				case "bytes":
					v, has := s.S[j.key]
					got, ok = fmt.Sprintf("% x", v), has && v == cpString(j.want.Cp)
				case "err":
					got, ok = "a value", false
				}
				if ok && j.c.Fam == "touch" {
					// exactly the operands the short-circuit rules reach were evaluated, each once
					seen := s.T[j.key]
					want := map[int64]bool{}
					for _, id := range j.c.Touched {
						want[id] = true
					}
					for id := int64(1); id <= 2; id++ {
						if (seen[id] > 0) != want[id] || seen[id] > 1 {
							ok, got = false, fmt.Sprintf("operands evaluated: %v, expected %v", seen, j.c.Touched)
						}
					}
				}
			}
			if !ok {
				bad++
				rec := J{"line": j.raw, "fam": j.c.Fam, "route": j.route, "text": j.text, "want": j.want, "got": got, "amp": j.c.Amp}
				if j.c.Amp && j.c.ImplWant != nil {
					rec["implWant"] = j.c.ImplWant
				}
				if !strings.HasPrefix(got, "error: build") && len(jobs) > 1 && withCompany < 3 {
					// what a text means may have been changed by the company it was built in: the cases built before it travel along
					withCompany++
					company := []json.RawMessage{}
					for _, o := range jobs[:ji+1] {
						if len(company) == 0 || !bytes.Equal(company[len(company)-1], o.raw) {
							company = append(company, o.raw)
						}
					}
					rec["company"] = company
				}
				b, _ := json.Marshal(rec)
				w.Write(b)
				w.WriteByte('\n')
			}
		}
		jobs = jobs[:0]
	}
	for sc.Scan() {
		line := bytes.TrimSpace(sc.Bytes())
		if len(line) == 0 {
			continue
		}
		c := &exprCase{}
		must(json.Unmarshal(line, c))
		raw := append(json.RawMessage{}, line...)
		n++
		fams[c.Fam]++
		style := n % 4
		put := putOf[c.Want.T]
		if c.Want.T == "err" {
			put = putOf[c.Typ]
		}
		add := func(route, text string) {
			key++
			jobs = append(jobs, job{key: key, text: text, put: put, want: c.Want, route: route, c: c, raw: raw})
		}
		switch c.Fam {
		case "flat":
			add("flat", flat(c.Toks, style))
			add("full", full(c.Tree, style+1))
		case "tree":
			add("full", full(c.Tree, style))
		case "lit":
			if c.Want.T == "i" {
				put = "PutI"
			}
			add("literal", litText(c.Lit, n))
		case "touch":
			curKey = key + 1
			add("touch", full(c.Tree, style))
		case "strlit":
			put = "PutS"
			add("strlit", strLitText(c))
		case "builtin":
			text := builtinText(c, key+1, n)
			if c.Want.T == "i" {
				text = "(" + text + " + 0)" // Len, Index, Count, Compare yield a Go int: the sum is an int64 for the typed sink
			}
			add("builtin", text)
		}
		if len(jobs) >= *batch {
			flush(n / *batch)
		}
	}
	flush(3)
	st, _ := json.Marshal(J{"cases": n, "evaluations": evals, "disagreements": bad, "families": fams})
	fmt.Println("STATS", string(st))
}
