package main

// Runs one case on the real engine (rebuilt from /repo on every check) and records its observable
// trace: listener callbacks, fact snapshots, instrumented method calls, cancellation points, return value.

import (
	"bufio"
	"bytes"
	"context"
	"encoding/json"
	"errors"
	"fmt"
	"io"
	"os"
	"os/exec"
	"regexp"
	"runtime"
	"sort"
	"strconv"
	"strings"
	"sync"
	"sync/atomic"
	"time"

	"github.com/hyperjumptech/grule-rule-engine/ast"
	"github.com/hyperjumptech/grule-rule-engine/builder"
	"github.com/hyperjumptech/grule-rule-engine/engine"
	"github.com/hyperjumptech/grule-rule-engine/pkg"
)

// Case is everything needed to (re-)run one call sequence on one knowledge base instance.
type Case struct {
	ID        int             `json:"id"`
	GRL       string          `json:"grl"`
	RulesJS   json.RawMessage `json:"rules"`            // program AST for the monitor
	Counted   json.RawMessage `json:"counted"`          // the one counted method atom of the program, or {"k":"none"}
	Stream    []byte          `json:"stream,omitempty"` // variant reloaded-cut: the (truncated) stream itself, loaded as is
	Other     *World          `json:"other"`
	pre       func()          // scheduler gate: called at every observable point of a call (concurrent replay)            // facts an earlier instance of the same library is run on (variant second)
	Removed   []string        `json:"removed"` // rules removed from the library before instantiation
	shared    *sharedEngine   // (concurrent runs only) the engine value all goroutines share
	JSONRules string          `json:"jsonRules"` // the same rules as a JSON rule set (variant json)
	Parts     []string        `json:"parts"`     // the same rules split over several resources (variant multi)
	Variant   string          `json:"variant"`   // fresh | reloaded | reloaded2 | second | multi
	Calls     []CallCfg       `json:"calls"`     // calls made on the one instance, in order
	Profile   string          `json:"profile"`
	Listener  int             `json:"listeners"` // number of listeners (0 = none: no trace but result checked)
}

// CallCfg configures one Execute / FetchMatchingRules call.
type CallCfg struct {
	Mode        string `json:"mode"` // exec | fetch
	World       *World `json:"world"`
	Max         uint64 `json:"max"`
	Flag        bool   `json:"flag"`        // ReturnErrOnFailedRuleEvaluation
	CancelAt    int    `json:"cancelAt"`    // observable point at which the context is cancelled (-1 never, 0 before the call)
	Deadline    bool   `json:"deadline"`    // use an already expired deadline instead of cancel (CancelAt == 0)
	Foreign     bool   `json:"foreign"`     // the context is not one of package context's own types (own Done channel and Err)
	Cause       bool   `json:"cause"`       // the context is cancelled WITH A CAUSE (context.WithCancelCause): Err() is still context.Canceled
	FarDeadline bool   `json:"farDeadline"` // the context also has a deadline far in the future (cancellation is still explicit)
	LateTimer   bool   `json:"lateTimer"`   // the context's deadline has passed by the clock but its timer has not fired yet: Err() is still nil, the run is NOT cancelled
	LookAt      int    `json:"lookAt"`      // the context reports the cancellation from the LookAt-th time the engine consults it (0 never): reaches the
	// points between two looks that no callback marks (e.g. between the engine's own check and the one inside RuleEntry.Evaluate)
	Shadow bool `json:"shadow"` // run the same call once more on a fresh instance WITHOUT any listener and report its outcome with the return
	NestAt int  `json:"nestAt"` // the NestAt-th fact-method call of the run executes another, independent rule set on the SAME engine value (0 never)
	UseCtx bool `json:"useCtx"` // ExecuteWithContext instead of Execute
}

// Emitter writes ndjson events.
type Emitter struct {
	w   *bufio.Writer
	n   int
	big bool // some fact value left the range the monitor can represent: the case is dropped
}

func NewEmitter(w io.Writer) *Emitter { return &Emitter{w: bufio.NewWriterSize(w, 1<<16)} }
func (e *Emitter) Emit(ev J) {
	if f, ok := ev["facts"].(J); ok && TooBig(f) {
		e.big = true
	}
	b, err := json.Marshal(ev)
	if err != nil {
		panic(err)
	}
	e.w.Write(b)
	e.w.WriteByte('\n')
	e.n++
}
func (e *Emitter) Flush() { e.w.Flush() }

type tracer struct {
	em            *Emitter
	world         *World
	gate          func(site string)
	mute          bool
	shadow        *[]string // event summary for listener-consistency checks
	primary       bool
	nesting       *bool // true while a nested run on the same engine value is in progress: its events are not this run's
	maxc          uint64
	execAnnounced *bool // an execution was announced in the current cycle
	over          *bool // the run went two cycles beyond its budget: that is flagged by then, the rest of it is not recorded
}

type nestFact struct{ X int64 }

var nestLib = func() *ast.KnowledgeLibrary {
	lib := ast.NewKnowledgeLibrary()
	must(builder.NewRuleBuilder(lib).BuildRuleFromResource("nest", "1", pkg.NewBytesResource([]byte(
		`rule Inner { when I.X < 2 then I.X = I.X + 1; }`))))
	return lib
}()
var nestMu sync.Mutex

var preLib = func() *ast.KnowledgeLibrary {
	lib := ast.NewKnowledgeLibrary()
	must(builder.NewRuleBuilder(lib).BuildRuleFromResource("pre", "1", pkg.NewBytesResource([]byte(
		`rule Pre { when F.X > 1000000 && F.Y < -5 then Retract("Pre"); }`))))
	return lib
}()

func preRun(dc ast.IDataContext) {
	nestMu.Lock()
	kb, err := preLib.NewKnowledgeBaseInstance("pre", "1")
	nestMu.Unlock()
	if err != nil {
		panic(err)
	}
	if err := (&engine.GruleEngine{MaxCycle: 2}).Execute(dc, kb); err != nil {
		panic("pre-run on the shared data context: " + err.Error())
	}
}

// shadowRun executes the first call of the case on a fresh instance with NO listener registered: what a run does
// may not depend on whether anybody watches it (C06: any number of registered listeners).
func shadowRun(c *Case, cc *CallCfg, watchdog time.Duration) (facts J, class string, ok bool) {
	defer func() {
		if r := recover(); r != nil {
			facts, class, ok = nil, "", false // (numbers that left every range cannot be projected: nothing to compare)
		}
	}()
	kb, err := safeBuild(c)
	if err != nil {
		return nil, "", false
	}
	w := cc.World.Clone()
	dc := w.DataContext()
	if c.Variant == "sharedctx" {
		preRun(dc)
	}
	eng := &engine.GruleEngine{MaxCycle: cc.Max, ReturnErrOnFailedRuleEvaluation: cc.Flag}
	type res struct {
		err error
		pan interface{}
	}
	done := make(chan res, 1)
	go func() {
		var r res
		defer func() {
			if p := recover(); p != nil {
				r.pan = p
			}
			done <- r
		}()
		if cc.UseCtx {
			r.err = eng.ExecuteWithContext(context.Background(), dc, kb)
		} else {
			r.err = eng.Execute(dc, kb)
		}
	}()
	select {
	case r := <-done:
		if r.pan != nil {
			return w.Snapshot(), "panic", true
		}
		cls, _ := classify(r.err, nil)
		if cls == "other" {
			var names []string
			for n := range kb.RuleEntries {
				names = append(names, n)
			}
			cls, _ = classifyLoosely(r.err, names, false)
		}
		if cls == "acterr" || cls == "evalerr" {
			cls = "ruleerr" // (without a listener there is no telling which of the two: the monitor compares coarsely)
		}
		return w.Snapshot(), cls, true
	case <-time.After(watchdog):
		return w.Snapshot(), "hang", true
	}
}

// storeInChild builds the GRL text in a child process and returns the stream that process stored.
func storeInChild(grl string) ([]byte, error) {
	self, err := os.Executable()
	if err != nil {
		return nil, err
	}
	cmd := exec.Command(self, "xproc-store")
	cmd.Stdin = strings.NewReader(grl)
	var out, errb bytes.Buffer
	cmd.Stdout, cmd.Stderr = &out, &errb
	if err := cmd.Run(); err != nil {
		return nil, fmt.Errorf("%v: %s", err, errb.String())
	}
	return out.Bytes(), nil
}

// cmdXprocStore: GRL text on stdin, the stored knowledge base on stdout.
func cmdXprocStore() {
	grl, err := io.ReadAll(os.Stdin)
	must(err)
	lib := ast.NewKnowledgeLibrary()
	must(builder.NewRuleBuilder(lib).BuildRuleFromResource("kb", "1", pkg.NewBytesResource(grl)))
	var buf bytes.Buffer
	must(lib.StoreKnowledgeBaseToWriter(&buf, "kb", "1"))
	os.Stdout.Write(buf.Bytes())
}

// sharedEngine: one engine value used by several goroutines at once; its single listener hands every callback to the tracer
// of the run the callback's context belongs to.
type sharedKey struct{}

type sharedEngine struct {
	eng  *engine.GruleEngine
	mu   sync.RWMutex
	next int
	m    map[int]*tracer
}

func newSharedEngine(max uint64) *sharedEngine {
	s := &sharedEngine{m: map[int]*tracer{}}
	s.eng = &engine.GruleEngine{MaxCycle: max, Listeners: []engine.GruleEngineListener{s}}
	return s
}
func (s *sharedEngine) register(t *tracer) int {
	s.mu.Lock()
	defer s.mu.Unlock()
	s.next++
	s.m[s.next] = t
	return s.next
}
func (s *sharedEngine) unregister(k int) { s.mu.Lock(); delete(s.m, k); s.mu.Unlock() }
func (s *sharedEngine) of(ctx context.Context) *tracer {
	k, _ := ctx.Value(sharedKey{}).(int)
	s.mu.RLock()
	defer s.mu.RUnlock()
	return s.m[k]
}
func (s *sharedEngine) BeginCycle(ctx context.Context, c uint64) {
	if t := s.of(ctx); t != nil {
		t.BeginCycle(ctx, c)
	}
}
func (s *sharedEngine) EvaluateRuleEntry(ctx context.Context, c uint64, e *ast.RuleEntry, can bool) {
	if t := s.of(ctx); t != nil {
		t.EvaluateRuleEntry(ctx, c, e, can)
	}
}
func (s *sharedEngine) ExecuteRuleEntry(ctx context.Context, c uint64, e *ast.RuleEntry) {
	if t := s.of(ctx); t != nil {
		t.ExecuteRuleEntry(ctx, c, e)
	}
}

// lookCtx counts how often the engine consults the context: a cancellation can be placed before any given look.
type lookCtx struct {
	context.Context
	onLook func(where string)
}

func (c *lookCtx) Err() error {
	where := "other"
	if pc, _, _, ok := runtime.Caller(1); ok {
		name := runtime.FuncForPC(pc).Name()
		switch {
		case strings.HasSuffix(name, "(*RuleEntry).Evaluate"):
			where = "evaluate"
		case strings.HasSuffix(name, "(*RuleEntry).Execute"):
			where = "execute"
		case strings.Contains(name, "(*GruleEngine)."):
			where = "engine"
		}
	}
	c.onLook(where)
	return c.Context.Err()
}

// foreignCtx is a context implemented outside package context (an application's shutdown context, a merged context ...):
// contexts derived from it learn of its cancellation only through a goroutine, the context itself reports it at once.
type foreignCtx struct {
	mu   sync.Mutex
	done chan struct{}
	err  error
}

func (c *foreignCtx) Deadline() (time.Time, bool)       { return time.Time{}, false }
func (c *foreignCtx) Done() <-chan struct{}             { return c.done }
func (c *foreignCtx) Value(key interface{}) interface{} { return nil }
func (c *foreignCtx) Err() error {
	c.mu.Lock()
	defer c.mu.Unlock()
	return c.err
}
func (c *foreignCtx) cancel() {
	c.mu.Lock()
	defer c.mu.Unlock()
	if c.err == nil {
		c.err = context.Canceled
		close(c.done)
	}
}

// lateCtx: a deadline that has passed by the clock while the context's own timer has not fired yet (a real, if short, state of
// every deadline context under load). Err() is nil and Done() is open: the run is not cancelled and must go on as usual.
type lateCtx struct {
	context.Context
	at time.Time
}

func (c *lateCtx) Deadline() (time.Time, bool) { return c.at, true }

func nestedRun(eng *engine.GruleEngine) {
	nestMu.Lock()
	kb, err := nestLib.NewKnowledgeBaseInstance("nest", "1")
	nestMu.Unlock()
	if err != nil {
		panic(err)
	}
	dc := ast.NewDataContext()
	dc.Add("I", &nestFact{})
	_ = eng.ExecuteWithContext(context.Background(), dc, kb)
}

func (l *tracer) note(s string) {
	if l.shadow != nil {
		*l.shadow = append(*l.shadow, s)
	}
}
func (l *tracer) BeginCycle(ctx context.Context, c uint64) {
	if l.nesting != nil && *l.nesting {
		return
	}
	if l.over != nil && (*l.over || c > l.maxc+2) {
		*l.over = true
		return
	}
	l.note(fmt.Sprintf("c%d", c))
	if !l.primary {
		return
	}
	if l.execAnnounced != nil {
		*l.execAnnounced = false
	}
	l.em.Emit(J{"ev": "cycle", "n": c, "facts": l.world.Snapshot()})
	l.gate("cycle")
}
func (l *tracer) EvaluateRuleEntry(ctx context.Context, c uint64, e *ast.RuleEntry, can bool) {
	if l.nesting != nil && *l.nesting {
		return
	}
	if l.over != nil && (*l.over || c > l.maxc+2) {
		*l.over = true
		return
	}
	l.note(fmt.Sprintf("e%d:%s:%v", c, e.RuleName, can))
	if !l.primary {
		return
	}
	l.em.Emit(J{"ev": "eval", "n": c, "r": e.RuleName, "can": can, "del": e.Deleted})
	l.gate("eval")
}
func (l *tracer) ExecuteRuleEntry(ctx context.Context, c uint64, e *ast.RuleEntry) {
	if l.nesting != nil && *l.nesting {
		return
	}
	if l.over != nil && (*l.over || c > l.maxc+2) {
		*l.over = true
		return
	}
	l.note(fmt.Sprintf("x%d:%s", c, e.RuleName))
	if !l.primary {
		return
	}
	if l.execAnnounced != nil {
		*l.execAnnounced = true
	}
	l.gate("exec") // a cancellation here precedes the announcement: the engine then refuses to run the rule
	l.em.Emit(J{"ev": "exec", "n": c, "r": e.RuleName, "del": e.Deleted})
}

var reActErr = regexp.MustCompile(`^error while executing rule (\S+)\. got`)
var reEvalErr1 = regexp.MustCompile(`evaluating expression in rule '([^']+)'`)
var reEvalErr2 = regexp.MustCompile(`error while evaluating rule (\S+) !`)
var reCtxEval = regexp.MustCompile(`context error on evaluating rule (\S+)\.`)

// classify maps the error returned by Execute to the return classes of the specification.
func classify(err error, ctx context.Context) (class string, rule string) {
	if err == nil {
		return "nil", ""
	}
	msg := err.Error()
	if ctx != nil && ctx.Err() != nil && errors.Is(err, ctx.Err()) {
		return "ctx", ""
	}
	if errors.Is(err, context.Canceled) || errors.Is(err, context.DeadlineExceeded) {
		return "ctx", ""
	}
	if strings.Contains(msg, "successfully selected rule candidate for execution after") {
		return "max", ""
	}
	if m := reActErr.FindStringSubmatch(msg); m != nil {
		return "acterr", m[1]
	}
	if m := reEvalErr1.FindStringSubmatch(msg); m != nil {
		return "evalerr", m[1]
	}
	if m := reEvalErr2.FindStringSubmatch(msg); m != nil {
		return "evalerr", m[1]
	}
	if m := reCtxEval.FindStringSubmatch(msg); m != nil {
		return "ctxeval", m[1]
	}
	return "other", ""
}

// classifyLoosely is the fall-back for an error whose text is none of the known forms (the properties fix what an error says,
// not its wording): an error that names a rule of the program is an action error when the engine had announced an execution
// in the current cycle and an evaluation error otherwise; an error that names no rule and speaks of cycles is the cycle limit.
func classifyLoosely(err error, names []string, execAnnounced bool) (class string, rule string) {
	msg := err.Error()
	best := ""
	for _, n := range names {
		if len(n) > len(best) && regexp.MustCompile(`(^|[^A-Za-z0-9_])`+regexp.QuoteMeta(n)+`([^A-Za-z0-9_]|$)`).MatchString(msg) {
			best = n
		}
	}
	switch {
	case best != "" && execAnnounced:
		return "acterr", best
	case best != "":
		return "evalerr", best
	case strings.Contains(strings.ToLower(msg), "cycle"):
		return "max", ""
	}
	return "other", ""
}

// BuildInstance builds the library per the case's variant and returns the instance to run on.
func BuildInstance(c *Case) (*ast.KnowledgeBase, error) {
	if c.Stream != nil {
		lib := ast.NewKnowledgeLibrary()
		if _, err := lib.LoadKnowledgeBaseFromReader(bytes.NewReader(c.Stream), true); err != nil {
			return nil, errExpectedReject
		}
		kb, err := lib.NewKnowledgeBaseInstance("kb", "1")
		if err != nil {
			return nil, fmt.Errorf("instance of a truncated stream that loaded: %w", err)
		}
		return kb, nil
	}
	lib := ast.NewKnowledgeLibrary()
	rb := builder.NewRuleBuilder(lib)
	if c.Variant == "xproc" && len(c.Parts) >= 2 {
		// the first resource was built and stored by ANOTHER process (this binary, run as a child); this process loads the
		// stream and builds the remaining resources into the same knowledge base
		stream, err := storeInChild(c.Parts[0])
		if err != nil {
			return nil, fmt.Errorf("store (child process): %w", err)
		}
		if _, err := lib.LoadKnowledgeBaseFromReader(bytes.NewReader(stream), true); err != nil {
			return nil, fmt.Errorf("load: %w", err)
		}
		for _, part := range c.Parts[1:] {
			if err := rb.BuildRuleFromResource("kb", "1", pkg.NewBytesResource([]byte(part))); err != nil {
				return nil, fmt.Errorf("build: %w", err)
			}
		}
	} else if c.Variant == "json" && c.JSONRules != "" {
		res, err := pkg.NewJSONResourceFromResource(pkg.NewBytesResource([]byte(c.JSONRules)))
		if err != nil {
			return nil, fmt.Errorf("build: JSON rule set: %w", err)
		}
		if err := rb.BuildRuleFromResource("kb", "1", res); err != nil {
			return nil, fmt.Errorf("build: %w", err)
		}
	} else if c.Variant == "multi" && len(c.Parts) > 0 {
		for _, part := range c.Parts {
			if err := rb.BuildRuleFromResource("kb", "1", pkg.NewBytesResource([]byte(part))); err != nil {
				return nil, fmt.Errorf("build: %w", err)
			}
		}
	} else if err := rb.BuildRuleFromResource("kb", "1", pkg.NewBytesResource([]byte(c.GRL))); err != nil {
		return nil, fmt.Errorf("build: %w", err)
	}
	for _, n := range c.Removed {
		lib.RemoveRuleEntry(n, "kb", "1")
	}
	if c.Variant == "blueprint" {
		// the library's own knowledge base, not a copy of it: the reference an instance must behave like (C09)
		return lib.GetKnowledgeBase("kb", "1"), nil
	}
	rounds := 0
	cut := -1
	switch {
	case c.Variant == "reloaded":
		rounds = 1
	case c.Variant == "reloaded2":
		rounds = 2
	case strings.HasPrefix(c.Variant, "reloaded-cut:"):
		rounds = 1
		cut, _ = strconv.Atoi(strings.TrimPrefix(c.Variant, "reloaded-cut:"))
	}
	for i := 0; i < rounds; i++ {
		var buf bytes.Buffer
		if err := lib.StoreKnowledgeBaseToWriter(&buf, "kb", "1"); err != nil {
			return nil, fmt.Errorf("store: %w", err)
		}
		data := buf.Bytes()
		if cut >= 0 && cut < len(data) {
			data = data[:cut]
		}
		lib2 := ast.NewKnowledgeLibrary()
		loaded, err := lib2.LoadKnowledgeBaseFromReader(bytes.NewReader(data), true)
		if err != nil {
			if cut >= 0 {
				return nil, errExpectedReject
			}
			return nil, fmt.Errorf("load: %w", err)
		}
		if cut < 0 {
			// C12: same name, version, rule names, descriptions and saliences
			want, got := metaOf(lib.GetKnowledgeBase("kb", "1")), metaOf(loaded)
			if fmt.Sprint(want) != fmt.Sprint(got) {
				return nil, fmt.Errorf("load: metadata differs after store/load: stored %v loaded %v", want, got)
			}
		}
		lib = lib2
	}
	kb, err := lib.NewKnowledgeBaseInstance("kb", "1")
	if err != nil {
		return nil, fmt.Errorf("instance: %w", err)
	}
	if c.Variant == "second" {
		// a first instance is created and used, the second one must be independent of it
		w := c.Calls[0].World.Clone()
		if c.Other != nil {
			w = c.Other.Clone()
		}
		eng := &engine.GruleEngine{MaxCycle: 3}
		_ = eng.Execute(w.DataContext(), kb)
		for _, r := range kb.RuleEntries {
			kb.RetractRule(r.RuleName)
		}
		kb, err = lib.NewKnowledgeBaseInstance("kb", "1")
		if err != nil {
			return nil, fmt.Errorf("instance2: %w", err)
		}
	}
	return kb, nil
}

// safeBuild: a panic while the library is built, stored, loaded or instantiated is a failed set-up (reported as such), not
// the end of the driver.
func safeBuild(c *Case) (kb *ast.KnowledgeBase, err error) {
	defer func() {
		if r := recover(); r != nil {
			kb, err = nil, fmt.Errorf("instance: panic: %v", r)
		}
	}()
	return BuildInstance(c)
}

// hangs counts the calls of this process that did not return: each leaves a goroutine behind (possibly holding a lock of the
// instance), so after a few of them the remaining calls are not run any more - the hangs themselves are reported.
var hangs int32

// RunCase executes every call of the case on one instance and emits one begin..ret section per call.
// It returns an error only for harness-level problems (the case could not be set up).
func RunCase(c *Case, em *Emitter, watchdog time.Duration) error {
	kb, err := safeBuild(c)
	if err == errExpectedReject {
		return err
	}
	if err != nil {
		em.Emit(J{"ev": "setup-failed", "id": c.ID * 8, "what": err.Error(), "grl": c.GRL, "variant": c.Variant})
		return err
	}
	RunCalls(c, kb, em, watchdog)
	return nil
}

// RunCalls executes the calls of the case on an instance that already exists.
func RunCalls(c *Case, kb *ast.KnowledgeBase, em *Emitter, watchdog time.Duration) {
	for ci := range c.Calls {
		if atomic.LoadInt32(&hangs) >= 6 {
			return
		}
		runCall(c, ci, kb, em, watchdog)
	}
}

func runCall(c *Case, ci int, kb *ast.KnowledgeBase, em *Emitter, watchdog time.Duration) {
	cc := &c.Calls[ci]
	w := cc.World.Clone()
	dc := w.DataContext()
	if c.Variant == "sharedctx" {
		// the caller's data context has been used before, with ANOTHER knowledge base (a rule set that matches nothing):
		// the built-in functions it carries must now serve this one
		preRun(dc)
	}
	ctx, cancel := context.WithCancel(context.Background())
	defer cancel()
	if cc.FarDeadline {
		ctx, cancel = context.WithTimeout(context.Background(), time.Hour)
		defer cancel()
	}
	if cc.Cause {
		c2, cancelCause := context.WithCancelCause(context.Background())
		ctx, cancel = c2, func() { cancelCause(errors.New("the caller's budget is used up")) }
		defer cancel()
	}
	if cc.Foreign {
		fc := &foreignCtx{done: make(chan struct{})}
		ctx, cancel = fc, fc.cancel
		defer cancel()
	}
	if cc.LateTimer {
		ctx = &lateCtx{Context: ctx, at: time.Now().Add(-time.Millisecond)}
	}
	if cc.Deadline {
		var c2 context.CancelFunc
		ctx, c2 = context.WithDeadline(context.Background(), time.Now().Add(-time.Second))
		defer c2()
	}
	site := 0
	cancelled := false
	nesting := false
	methodCalls := 0
	var eng *engine.GruleEngine
	gate := func(kind string) {
		if nesting {
			return
		}
		if c.pre != nil {
			c.pre()
		}
		if cc.NestAt > 0 && strings.HasPrefix(kind, "call:") {
			methodCalls++
			if methodCalls == cc.NestAt {
				// a user method that itself runs rules, on the same engine value and with its own context, facts and
				// knowledge base: invisible to this run (the tracers are muted while it lasts)
				nesting = true
				nestedRun(eng)
				nesting = false
			}
		}
		site++
		if cc.CancelAt == site && !cancelled {
			cancelled = true
			em.Emit(J{"ev": "cancel", "site": site, "kind": kind})
			cancel()
		}
	}
	over := false
	execAnnounced := false
	w.F.hook = func(ev J) {
		if !over {
			em.Emit(ev)
		}
	}
	w.F.gate = gate
	looks := 0
	if cc.LookAt > 0 {
		ctx = &lookCtx{Context: ctx, onLook: func(where string) {
			if nesting {
				return
			}
			looks++
			if looks == cc.LookAt && !cancelled {
				cancelled = true
				// where: "engine" (the engine's own checks), "evaluate" / "execute" (the checks at the start of RuleEntry.Evaluate /
				// RuleEntry.Execute: the rule announced last is then not run), "other"
				em.Emit(J{"ev": "cancel", "site": -looks, "kind": "look:" + where})
				cancel()
			}
		}}
	}
	begin := J{"ev": "begin", "id": c.ID*8 + ci, "call": ci, "mode": cc.Mode, "rules": c.RulesJS, "facts": w.Snapshot(),
		"max": cc.Max, "flag": cc.Flag, "variant": c.Variant, "profile": c.Profile, "counted": c.Counted}
	em.Emit(begin)
	if cc.CancelAt == 0 && !cc.Deadline {
		cancelled = true
		em.Emit(J{"ev": "cancel", "site": 0, "kind": "before"})
		cancel()
	} else if cc.Deadline {
		em.Emit(J{"ev": "cancel", "site": 0, "kind": "deadline"})
	}
	eng = &engine.GruleEngine{MaxCycle: cc.Max, ReturnErrOnFailedRuleEvaluation: cc.Flag}
	shadows := make([][]string, c.Listener)
	if c.shared != nil {
		// ONE engine value serves every goroutine of a concurrent run (its listener routes the callbacks by a value in the context)
		eng = c.shared.eng
		shadows = make([][]string, 1)
		key := c.shared.register(&tracer{em: em, world: w, gate: gate, shadow: &shadows[0], primary: true, nesting: &nesting, maxc: cc.Max, over: &over, execAnnounced: &execAnnounced})
		defer c.shared.unregister(key)
		ctx = context.WithValue(ctx, sharedKey{}, key)
	} else {
		for i := 0; i < c.Listener; i++ {
			eng.Listeners = append(eng.Listeners, &tracer{em: em, world: w, gate: gate, shadow: &shadows[i], primary: i == 0, nesting: &nesting, maxc: cc.Max, over: &over, execAnnounced: &execAnnounced})
		}
	}
	type result struct {
		err     error
		matched []string
		sal     []int
		anyDel  bool
		pan     interface{}
	}
	done := make(chan result, 1)
	go func() {
		var r result
		defer func() {
			if p := recover(); p != nil {
				r.pan = p
			}
			done <- r
		}()
		if cc.Mode == "fetch" {
			var res []*ast.RuleEntry
			res, r.err = eng.FetchMatchingRules(dc, kb)
			for _, re := range res {
				r.matched = append(r.matched, re.RuleName)
				r.sal = append(r.sal, re.Salience)
				r.anyDel = r.anyDel || re.Deleted
			}
		} else if c.shared != nil || cc.Foreign || cc.Cause || cc.UseCtx || cc.CancelAt >= 0 || cc.Deadline || cc.LookAt > 0 || cc.FarDeadline || cc.LateTimer {
			r.err = eng.ExecuteWithContext(ctx, dc, kb)
		} else {
			r.err = eng.Execute(dc, kb)
		}
	}()
	var r result
	hung := false
	select {
	case r = <-done:
	case <-time.After(watchdog):
		hung = true
		atomic.AddInt32(&hangs, 1)
	}
	ret := J{"ev": "ret", "facts": J{}, "rule": "", "what": ""}
	if !over {
		ret["facts"] = w.Snapshot() // (a run that went beyond its budget is flagged by then; its numbers may have left every range)
	}
	switch {
	case hung:
		ret["err"] = "hang"
	case r.pan != nil:
		ret["err"] = "panic"
		ret["what"] = fmt.Sprint(r.pan)
	default:
		cls, rule := classify(r.err, ctx)
		if cls == "other" {
			var names []string
			for n := range kb.RuleEntries {
				names = append(names, n)
			}
			cls, rule = classifyLoosely(r.err, names, execAnnounced)
		}
		ret["err"] = cls
		ret["rule"] = rule
		if r.err != nil {
			ret["what"] = r.err.Error()
		}
	}
	if cc.Mode == "fetch" {
		if r.matched == nil {
			r.matched = []string{}
			r.sal = []int{}
		}
		ret["matched"] = r.matched
		ret["sal"] = r.sal
		ret["anydel"] = r.anyDel
	}
	lsnOK := true
	for i := 1; i < len(shadows); i++ {
		if strings.Join(shadows[i], ",") != strings.Join(shadows[0], ",") {
			lsnOK = false
		}
	}
	ret["lsnok"] = lsnOK
	ret["looks"] = looks
	ret["complete"] = dc.IsComplete()
	if cc.Shadow && ci == 0 && cc.Mode == "exec" && cc.CancelAt < 0 && !cc.Deadline && !hung {
		if facts0, err0, ok := shadowRun(c, cc, watchdog); ok {
			ret["facts0"], ret["err0"] = facts0, err0
		}
	}
	w.F.hook, w.F.gate = nil, nil
	em.Emit(ret)
}

// ---- C12: stream faults -------------------------------------------------------------------------------

// errExpectedReject marks a set-up that was (correctly) refused: a truncated stream that does not load.
var errExpectedReject = errors.New("truncated stream rejected")

type failingWriter struct {
	buf    bytes.Buffer
	calls  int
	failAt int // the failAt-th Write call and every later one fail (1-based)
}

func (w *failingWriter) Write(p []byte) (int, error) {
	w.calls++
	if w.failAt > 0 && w.calls >= w.failAt {
		return 0, errors.New("injected write failure")
	}
	return w.buf.Write(p)
}

type kbMeta struct {
	Name, Version string
	Rules         []string
}

func metaOf(kb *ast.KnowledgeBase) kbMeta {
	m := kbMeta{Name: kb.Name, Version: kb.Version}
	for _, r := range kb.RuleEntries {
		if r.Deleted {
			continue
		}
		m.Rules = append(m.Rules, fmt.Sprintf("%s|%s|%d", r.RuleName, r.RuleDescription, r.Salience))
	}
	sort.Strings(m.Rules)
	return m
}
