package main

// C09: (a) isolation by pointer identity - no mutable AST node is reachable from both the blueprint and an
// instance, or from two instances (reflect walk incl. unexported working-memory maps); (b) schedules exported by
// TLC from spec/GruleConc.tla are replayed with the listener callbacks as blocking gates: G goroutines create an
// instance of ONE shared library and execute it on their own facts, every goroutine's trace goes to the layer-A
// monitor; (c) ungated stress. Built with -race by the check: any race report is a violation.

import (
	"bufio"
	"bytes"
	"encoding/json"
	"flag"
	"fmt"
	"math/rand"
	"os"
	"reflect"
	"runtime"
	"strings"
	"sync"
	"time"
	"unsafe"

	"github.com/hyperjumptech/grule-rule-engine/ast"
	"github.com/hyperjumptech/grule-rule-engine/builder"
	"github.com/hyperjumptech/grule-rule-engine/pkg"
)

// ---- pointer identity ------------------------------------------------------------------------------------

func astPointers(root interface{}) map[uintptr]string {
	out := map[uintptr]string{}
	seen := map[uintptr]bool{}
	var visit func(v reflect.Value, depth int)
	visit = func(v reflect.Value, depth int) {
		if !v.IsValid() || depth > 200 {
			return
		}
		switch v.Kind() {
		case reflect.Ptr:
			if v.IsNil() {
				return
			}
			p := v.Pointer()
			if seen[p] {
				return
			}
			seen[p] = true
			et := v.Type().Elem()
			if et.Kind() == reflect.Struct && strings.HasSuffix(et.PkgPath(), "grule-rule-engine/ast") {
				out[p] = et.Name()
			}
			visit(v.Elem(), depth+1)
		case reflect.Interface:
			if !v.IsNil() {
				visit(v.Elem(), depth+1)
			}
		case reflect.Struct:
			t := v.Type()
			if t.PkgPath() == "reflect" || t.PkgPath() == "sync" || t.PkgPath() == "time" {
				return
			}
			for i := 0; i < v.NumField(); i++ {
				f := v.Field(i)
				if !f.CanInterface() {
					if !f.CanAddr() {
						continue
					}
					f = reflect.NewAt(f.Type(), unsafe.Pointer(f.UnsafeAddr())).Elem()
				}
				visit(f, depth+1)
			}
		case reflect.Map:
			it := v.MapRange()
			for it.Next() {
				visit(it.Key(), depth+1)
				visit(it.Value(), depth+1)
			}
		case reflect.Slice, reflect.Array:
			for i := 0; i < v.Len(); i++ {
				visit(v.Index(i), depth+1)
			}
		}
	}
	visit(reflect.ValueOf(root), 0)
	return out
}

func sharedNodes(a, b map[uintptr]string) []string {
	var s []string
	for p, name := range a {
		if _, ok := b[p]; ok {
			s = append(s, fmt.Sprintf("%s@%x", name, p))
		}
	}
	return s
}

// ---- schedule gate ------------------------------------------------------------------------------------------

type schedGate struct {
	mu    sync.Mutex
	cond  *sync.Cond
	sched []int
	pos   int
	left  []int
	done  []bool
}

func newSchedGate(sched []int, g, k int) *schedGate {
	s := &schedGate{sched: sched, left: make([]int, g+1), done: make([]bool, g+1)}
	for p := 1; p <= g; p++ {
		s.left[p] = k
	}
	s.cond = sync.NewCond(&s.mu)
	return s
}

func (s *schedGate) skipFinished() {
	for s.pos < len(s.sched) && s.done[s.sched[s.pos]] {
		s.pos++
	}
}

// wait blocks goroutine p until the schedule names it (a goroutine that used up its gated steps runs free).
func (s *schedGate) wait(p int) {
	s.mu.Lock()
	defer s.mu.Unlock()
	if s.left[p] == 0 {
		return
	}
	for {
		s.skipFinished()
		if s.pos >= len(s.sched) || s.sched[s.pos] == p {
			break
		}
		s.cond.Wait()
	}
	if s.pos < len(s.sched) {
		s.pos++
		s.left[p]--
	}
	s.cond.Broadcast()
}

func (s *schedGate) finish(p int) {
	s.mu.Lock()
	s.done[p] = true
	s.left[p] = 0
	s.skipFinished()
	s.cond.Broadcast()
	s.mu.Unlock()
}

type schedCase struct {
	Fam   string `json:"fam"`
	G     int    `json:"g"`
	K     int    `json:"k"`
	Sched []int  `json:"sched"`
}

func cmdConcReplay(args []string) {
	fs := flag.NewFlagSet("conc-replay", flag.ExitOnError)
	in := fs.String("in", "cases.ndjson", "schedules exported by TLC")
	out := fs.String("out", "mismatch.ndjson", "isolation findings")
	traceOut := fs.String("trace", "trace.ndjson", "traces of all goroutines (for the monitor)")
	casesOut := fs.String("casefile", "tracecases.ndjson", "cases of the traces")
	seed := fs.Int64("seed", 1, "seed")
	programs := fs.Int("programs", 6, "generated rule sets the schedules are cycled over")
	stress := fs.Int("stress", 0, "additional ungated rounds: goroutines x rounds")
	fs.Parse(args)
	r := rand.New(rand.NewSource(*seed))
	gen := &Gen{r: r, p: profiles["memo"]}
	f, err := os.Open(*in)
	must(err)
	defer f.Close()
	of, err := os.Create(*out)
	must(err)
	defer of.Close()
	w := bufio.NewWriter(of)
	defer w.Flush()
	tf, err := os.Create(*traceOut)
	must(err)
	defer tf.Close()
	tw := bufio.NewWriterSize(tf, 1<<20)
	defer tw.Flush()
	cf, err := os.Create(*casesOut)
	must(err)
	defer cf.Close()
	cw := bufio.NewWriterSize(cf, 1<<20)
	defer cw.Flush()

	type progT struct {
		grl   string
		rules json.RawMessage
		lib   *ast.KnowledgeLibrary
	}
	var progs []*progT
	nshared, walked := 0, 0
	var raw json.RawMessage
	report := func(what string, got interface{}, grl string) {
		b, _ := json.Marshal(J{"line": raw, "what": what, "got": got, "grl": grl})
		w.Write(b)
		w.WriteByte('\n')
	}
	for len(progs) < *programs {
		gen.p = profiles[[]string{"memo", "core", "control"}[len(progs)%3]]
		p := gen.Program()
		hasRemoved := false
		for _, ru := range p.Rules {
			hasRemoved = hasRemoved || ru.Removed
		}
		if hasRemoved {
			continue
		}
		lib := ast.NewKnowledgeLibrary()
		must(builder.NewRuleBuilder(lib).BuildRuleFromResource("kb", "1", pkg.NewBytesResource([]byte(p.GRL()))))
		rules, _ := json.Marshal(p.JS())
		progs = append(progs, &progT{grl: p.GRL(), rules: rules, lib: lib})
		// (a) pointer identity: blueprint vs two instances
		i1, e1 := lib.NewKnowledgeBaseInstance("kb", "1")
		i2, e2 := lib.NewKnowledgeBaseInstance("kb", "1")
		if e1 != nil || e2 != nil {
			raw = json.RawMessage(`{"fam":"isolation"}`)
			report("instantiate", fmt.Sprint(e1, e2), p.GRL())
			nshared++
			continue
		}
		bp := astPointers(lib.GetKnowledgeBase("kb", "1"))
		p1, p2 := astPointers(i1), astPointers(i2)
		walked += len(bp) + len(p1) + len(p2)
		if s := append(sharedNodes(bp, p1), sharedNodes(p1, p2)...); len(s) > 0 {
			raw = json.RawMessage(`{"fam":"isolation"}`)
			if len(s) > 5 {
				s = s[:5]
			}
			report("AST nodes shared between blueprint and instance or between two instances", s, p.GRL())
			nshared++
		}
		if len(p1) == 0 || len(bp) == 0 {
			must(fmt.Errorf("reflect walk found no AST node: the walker is out of date"))
		}
	}

	id, nround := 0, 0
	runConcurrent := func(prog *progT, g int, gate *schedGate) {
		var wg sync.WaitGroup
		// every other round all goroutines go through ONE engine value (a package-level engine is common usage)
		var shared *sharedEngine
		if nround++; nround%2 == 0 {
			shared = newSharedEngine(5)
		}
		bufs := make([]bytes.Buffer, g+1)
		cases := make([]*Case, g+1)
		worlds := make([]*World, g+1)
		for p := 1; p <= g; p++ {
			worlds[p] = gen.World()
		}
		for p := 1; p <= g; p++ {
			p := p
			c := &Case{ID: id, GRL: prog.grl, RulesJS: prog.rules, Variant: "concurrent", Profile: "conc", Listener: 1,
				Counted: json.RawMessage(`{"k":"none"}`),
				Calls:   []CallCfg{{Mode: "exec", World: worlds[p], Max: uint64(3 + p), CancelAt: -1}}}
			if shared != nil {
				c.shared = shared
				c.Calls[0].Max = 5
				c.Variant = "concurrent-shared-engine"
			}
			id++
			cases[p] = c
			wg.Add(1)
			go func() {
				defer wg.Done()
				em := NewEmitter(&bufs[p])
				if gate != nil {
					gate.wait(p)
					c.pre = func() { gate.wait(p) }
					defer gate.finish(p)
				}
				kb, err := prog.lib.NewKnowledgeBaseInstance("kb", "1")
				if err != nil {
					em.Emit(J{"ev": "setup-failed", "id": c.ID * 8, "what": err.Error(), "grl": c.GRL, "variant": "concurrent"})
					em.Flush()
					return
				}
				RunCalls(c, kb, em, 30*time.Second)
				em.Flush()
			}()
		}
		wg.Wait()
		for p := 1; p <= g; p++ {
			tw.Write(bufs[p].Bytes())
			cb, _ := json.Marshal(cases[p])
			cw.Write(cb)
			cw.WriteByte('\n')
		}
	}

	sc := bufio.NewScanner(f)
	sc.Buffer(make([]byte, 1<<20), 1<<24)
	n := 0
	for sc.Scan() {
		line := bytes.TrimSpace(sc.Bytes())
		if len(line) == 0 {
			continue
		}
		var c schedCase
		must(json.Unmarshal(line, &c))
		raw = append(json.RawMessage{}, line...)
		n++
		runConcurrent(progs[n%len(progs)], c.G, newSchedGate(c.Sched, c.G, c.K))
	}
	rounds := 0
	if *stress > 0 {
		for _, procs := range []int{1, 2, runtime.NumCPU()} {
			runtime.GOMAXPROCS(procs)
			for k := 0; k < *stress; k++ {
				runConcurrent(progs[k%len(progs)], 8, nil)
				rounds++
			}
		}
		runtime.GOMAXPROCS(runtime.NumCPU())
	}
	st, _ := json.Marshal(J{"cases": n, "disagreements": nshared, "programs": len(progs), "ast_pointers_walked": walked, "stress_rounds": rounds, "goroutine_runs": id})
	fmt.Println("STATS", string(st))
}
