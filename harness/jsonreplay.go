package main

// C18: replays the JSON-rule cases TLC exports from spec/GrlJson.tla through the real pipeline
// JSON resource -> translator -> GRL builder -> engine: operator trees (value and grouping), string constants
// (exact round trip, also as description), name / description / salience, malformed rules (must be refused).

import (
	"bufio"
	"bytes"
	"encoding/json"
	"flag"
	"fmt"
	"os"
	"regexp"
	"strconv"
	"strings"

	"github.com/hyperjumptech/grule-rule-engine/ast"
	"github.com/hyperjumptech/grule-rule-engine/builder"
	"github.com/hyperjumptech/grule-rule-engine/engine"
	"github.com/hyperjumptech/grule-rule-engine/pkg"
)

type jnode struct {
	J    string   `json:"j"`
	N    int64    `json:"n"`
	V    bool     `json:"v"`
	P    string   `json:"p"`
	Val  *tval    `json:"val"`
	Op   string   `json:"op"`
	Args []*jnode `json:"args"`
}

func (n *jnode) value() interface{} {
	switch n.J {
	case "num":
		return n.N
	case "bool":
		return n.V
	case "str":
		return n.P
	case "obj":
		return J{"obj": n.P}
	case "const":
		switch n.Val.T {
		case "i":
			return J{"const": n.Val.N}
		case "b":
			return J{"const": n.Val.V}
		case "s":
			return J{"const": n.Val.S}
		}
	case "op":
		args := []interface{}{}
		for _, a := range n.Args {
			args = append(args, a.value())
		}
		return J{n.Op: args}
	}
	panic("json node " + n.J)
}

type jsonCase struct {
	Fam   string `json:"fam"`
	JSON  *jnode `json:"json"`
	Typ   string `json:"typ"`
	Want  tval   `json:"want"`
	Str   string `json:"str"`
	Shape string `json:"shape"`
}

type JSink struct {
	Sink
	A, Bv int64
	T     bool
}

var descs = []string{"plain", `say "hi"`, `back\slash`, "two\nlines", "it's", `q"\n`, ""}

func badRule(shape string) (string, bool) {
	ok := J{"name": "Bad", "desc": "d", "salience": 1, "when": J{"eq": []interface{}{1, 1}}, "then": []interface{}{J{"call": []interface{}{"Complete"}}}}
	mk := func(edit func(r J)) string { edit(ok); b, _ := json.Marshal(ok); return string(b) }
	switch shape {
	case "unknown-operator":
		return mk(func(r J) { r["when"] = J{"foo": []interface{}{1, 2}} }), true
	case "arity-0":
		return mk(func(r J) { r["when"] = J{"eq": []interface{}{}} }), true
	case "arity-1-eq":
		return mk(func(r J) { r["when"] = J{"eq": []interface{}{true}} }), true
	case "arity-1-plus":
		return mk(func(r J) { r["when"] = J{"eq": []interface{}{J{"plus": []interface{}{1}}, 1}} }), true
	case "arity-1-lt":
		return mk(func(r J) { r["when"] = J{"lt": []interface{}{1}} }), true
	case "set-arity-1":
		return mk(func(r J) { r["then"] = []interface{}{J{"set": []interface{}{"S.A"}}} }), true
	case "set-arity-3":
		return mk(func(r J) { r["then"] = []interface{}{J{"set": []interface{}{"S.A", 1, 2}}} }), true
	case "call-arity-0":
		return mk(func(r J) { r["then"] = []interface{}{J{"call": []interface{}{}}} }), true
	case "missing-name":
		return mk(func(r J) { delete(r, "name") }), true
	case "missing-when":
		return mk(func(r J) { delete(r, "when") }), true
	case "missing-then":
		return mk(func(r J) { delete(r, "then") }), true
	case "when-number":
		return mk(func(r J) { r["when"] = 5 }), true
	case "empty-input":
		return "", true
	case "blank-input":
		return " \n\t ", true
	case "not-json":
		return `{"name": "Bad", "when": `, true
	case "two-keys":
		return mk(func(r J) { r["when"] = J{"eq": []interface{}{1, 1}, "lt": []interface{}{1, 2}} }), true
	case "obj-not-string":
		return mk(func(r J) { r["when"] = J{"eq": []interface{}{J{"obj": 5}, 1}} }), true
	case "const-array":
		return mk(func(r J) { r["when"] = J{"eq": []interface{}{J{"const": []interface{}{1}}, 1}} }), true
	case "unknown-nested":
		return mk(func(r J) {
			r["when"] = J{"and": []interface{}{J{"eq": []interface{}{1, 1}}, J{"nope": []interface{}{1, 1}}}}
		}), true
	case "arity-1-nested":
		return mk(func(r J) {
			r["when"] = J{"and": []interface{}{J{"eq": []interface{}{1, 1}}, J{"gt": []interface{}{2}}}}
		}), true
	}
	return "", false
}

var reJSONRule = regexp.MustCompile(`rule ([CD]\d+)`)

// buildJSON runs the JSON text through the JSON resource and the GRL builder.
func buildJSON(lib *ast.KnowledgeLibrary, text string) error {
	res, err := pkg.NewJSONResourceFromResource(pkg.NewBytesResource([]byte(text)))
	if err != nil {
		return err
	}
	return builder.NewRuleBuilder(lib).BuildRuleFromResource("j", "1", res)
}

func cmdJSONReplay(args []string) {
	fs := flag.NewFlagSet("json-replay", flag.ExitOnError)
	in := fs.String("in", "cases.ndjson", "cases exported by TLC")
	out := fs.String("out", "mismatch.ndjson", "disagreements")
	batch := fs.Int("batch", 60, "rules per JSON rule set")
	fs.Parse(args)
	f, err := os.Open(*in)
	must(err)
	defer f.Close()
	of, err := os.Create(*out)
	must(err)
	defer of.Close()
	w := bufio.NewWriter(of)
	defer w.Flush()
	sc := bufio.NewScanner(f)
	sc.Buffer(make([]byte, 1<<20), 1<<24)
	n, bad, evals := 0, 0, 0
	fams := map[string]int{}
	type pending struct {
		key  int64
		rule J
		cond J // the same boolean tree as the condition of a companion rule (nil if none)
		c    *jsonCase
		raw  json.RawMessage
		desc string
		sal  int
	}
	var jobs []pending
	report := func(p *pending, c *jsonCase, raw json.RawMessage, what string, want, got interface{}, grl string) {
		bad++
		rec := J{"line": raw, "fam": c.Fam, "what": what, "want": want, "got": got, "grl": grl}
		if p != nil {
			rec["rule"] = p.rule
		}
		b, _ := json.Marshal(rec)
		w.Write(b)
		w.WriteByte('\n')
	}
	var runJobs func(js []pending)
	runJobs = func(js []pending) {
		if len(js) == 0 {
			return
		}
		rules := []interface{}{}
		for _, p := range js {
			rules = append(rules, p.rule)
			if p.cond != nil {
				rules = append(rules, p.cond)
			}
		}
		text, _ := json.Marshal(rules)
		lib := ast.NewKnowledgeLibrary()
		if err := buildJSON(lib, string(text)); err != nil {
			if len(js) == 1 {
				one, _ := json.Marshal(js[0].rule)
				grl, _ := pkg.ParseJSONRule(one)
				report(&js[0], js[0].c, js[0].raw, "translate+build", "accepted", err.Error(), grl)
				return
			}
			runJobs(js[:len(js)/2])
			runJobs(js[len(js)/2:])
			return
		}
		kb, err := lib.NewKnowledgeBaseInstance("j", "1")
		if err != nil {
			for i := range js {
				report(&js[i], js[i].c, js[i].raw, "instantiate", "instance", err.Error(), "")
			}
			return
		}
		// name, description and salience arrive as given
		for i := range js {
			p := &js[i]
			re, ok := kb.RuleEntries["C"+strconv.FormatInt(p.key, 10)]
			if !ok {
				report(p, p.c, p.raw, "rule name", "C"+strconv.FormatInt(p.key, 10), "absent", "")
				continue
			}
			if re.RuleDescription != p.desc {
				report(p, p.c, p.raw, "description", p.desc, re.RuleDescription, "")
			}
			if re.Salience != p.sal {
				report(p, p.c, p.raw, "salience", p.sal, re.Salience, "")
			}
		}
		eng := &engine.GruleEngine{MaxCycle: uint64(2*len(js) + 2)}
		errs := map[int64]string{}
		var s *JSink
		for {
			s = &JSink{Sink: *newSink(), A: 6, Bv: 3, T: true}
			dc := ast.NewDataContext()
			dc.Add("S", s)
			err := eng.Execute(dc, kb)
			if err == nil {
				break
			}
			m := reJSONRule.FindStringSubmatch(err.Error())
			if m == nil {
				for i := range js {
					report(&js[i], js[i].c, js[i].raw, "execute", "no error", err.Error(), "")
				}
				return
			}
			k, _ := strconv.ParseInt(m[1][1:], 10, 64)
			if _, dup := errs[k]; dup {
				break
			}
			errs[k] = err.Error()
			kb.RemoveRuleEntry(m[1])
		}
		for i := range js {
			p := &js[i]
			evals++
			if e, failed := errs[p.key]; failed {
				one, _ := json.Marshal(p.rule)
				grl, _ := pkg.ParseJSONRule(one)
				report(p, p.c, p.raw, "value", p.c.Want, "error: "+e, grl)
				continue
			}
			ok, got := false, ""
			switch p.c.Want.T {
			case "i":
				v, has := s.I[p.key]
				got, ok = fmt.Sprint(v), has && v == p.c.Want.N
			case "r":
				v, has := s.R[p.key]
				got, ok = fmt.Sprint(v), has && v == float64(p.c.Want.N)/float64(p.c.Want.D)
			case "b":
				v, has := s.B[p.key]
				got, ok = fmt.Sprint(v), has && v == p.c.Want.V.(bool)
				// a boolean tree is also the rule's condition: the marker action ran iff it is true
				if _, fired := s.I[-p.key]; ok && fired != p.c.Want.V.(bool) {
					ok, got = false, fmt.Sprintf("condition fired=%v", fired)
				}
			case "s":
				v, has := s.S[p.key]
				got, ok = v, has && v == p.c.Want.S
			case "none":
				ok = true
			}
			if !ok {
				one, _ := json.Marshal(p.rule)
				grl, _ := pkg.ParseJSONRule(one)
				report(p, p.c, p.raw, "value", p.c.Want, got, grl)
			}
		}
	}
	var key int64
	for sc.Scan() {
		line := bytes.TrimSpace(sc.Bytes())
		if len(line) == 0 {
			continue
		}
		c := &jsonCase{}
		must(json.Unmarshal(line, c))
		raw := append(json.RawMessage{}, line...)
		n++
		fams[c.Fam]++
		key++
		name := "C" + strconv.FormatInt(key, 10)
		desc := descs[n%len(descs)]
		sal := int(key%11) - 5
		retract := J{"call": []interface{}{"Retract", J{"const": name}}}
		switch c.Fam {
		case "jsontree":
			put := map[string]string{"i": "S.PutI", "r": "S.PutR", "b": "S.PutB"}[c.Want.T]
			rule := J{"name": name, "desc": desc, "salience": sal, "when": "true",
				"then": []interface{}{J{"call": []interface{}{put, key, c.JSON.value()}}, retract}}
			p := pending{key: key, rule: rule, c: c, raw: raw, desc: desc, sal: sal}
			if c.Want.T == "b" {
				// the same tree as the condition of a companion rule
				name2 := "D" + strconv.FormatInt(key, 10)
				p.cond = J{"name": name2, "desc": desc, "salience": sal, "when": c.JSON.value(),
					"then": []interface{}{J{"call": []interface{}{"S.PutI", -key, 1}}, J{"call": []interface{}{"Retract", J{"const": name2}}}}}
			}
			jobs = append(jobs, p)
		case "jsonstr":
			// the string as a constant argument, in a condition, and as the description
			rule := J{"name": name, "desc": c.Str, "salience": sal, "when": J{"eq": []interface{}{J{"const": c.Str}, J{"const": c.Str}}},
				"then": []interface{}{J{"call": []interface{}{"S.PutS", key, J{"const": c.Str}}}, retract}}
			jobs = append(jobs, pending{key: key, rule: rule, c: c, raw: raw, desc: c.Str, sal: sal})
		case "jsonbad":
			text, known := badRule(c.Shape)
			if !known {
				must(fmt.Errorf("unknown malformed shape %s", c.Shape))
			}
			lib := ast.NewKnowledgeLibrary()
			func() {
				defer func() {
					if r := recover(); r != nil {
						report(nil, c, raw, "malformed rule "+c.Shape, "an error", fmt.Sprintf("panic: %v", r), "")
					}
				}()
				if err := buildJSON(lib, text); err == nil {
					grl, _ := pkg.ParseJSONRule([]byte(text))
					report(nil, c, raw, "malformed rule "+c.Shape, "an error", "accepted", grl)
				}
				if !strings.HasPrefix(strings.TrimSpace(text), "{") {
					return
				}
				if err := buildJSON(ast.NewKnowledgeLibrary(), "["+text+"]"); err == nil {
					report(nil, c, raw, "malformed rule "+c.Shape+" inside a rule set", "an error", "accepted", "")
				}
			}()
			evals++
		}
		if len(jobs) >= *batch {
			runJobs(jobs)
			jobs = nil
		}
	}
	runJobs(jobs)
	st, _ := json.Marshal(J{"cases": n, "evaluations": evals, "disagreements": bad, "families": fams})
	fmt.Println("STATS", string(st))
}
