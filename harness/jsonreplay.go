package main

// C18: replays the JSON-rule cases TLC exports from spec/GrlJson.tla through the real pipeline
// JSON resource -> translator -> GRL builder -> engine: operator trees (value and grouping), string constants
// (exact round trip, also as description), name / description / salience, malformed rules (must be refused).

import (
	"bufio"
	"bytes"
	"encoding/json"
	"flag"
	"fmt"
	"math"
	"os"
	"regexp"
	"strconv"
	"strings"

	"github.com/hyperjumptech/grule-rule-engine/ast"
	"github.com/hyperjumptech/grule-rule-engine/builder"
	"github.com/hyperjumptech/grule-rule-engine/engine"
	"github.com/hyperjumptech/grule-rule-engine/pkg"
)

type jnode struct {
	J    string   `json:"j"`
	N    int64    `json:"n"`
	V    bool     `json:"v"`
	P    string   `json:"p"`
	Val  *tval    `json:"val"`
	Op   string   `json:"op"`
	Args []*jnode `json:"args"`
}

var jsonOpSym = map[string]string{"and": "&&", "or": "||", "eq": "==", "not": "!=", "gt": ">", "gte": ">=", "lt": "<", "lte": "<=", "bor": "|", "band": "&",
	"plus": "+", "minus": "-", "div": "/", "mul": "*", "mod": "%"}

// text prints the meaning of a JSON tree as GRL, fully parenthesised (operands grouped exactly as nested, several operands
// fold to the left, single-operand not is negation).
func (n *jnode) text() string {
	switch n.J {
	case "num":
		return strconv.FormatInt(n.N, 10)
	case "bool":
		return strconv.FormatBool(n.V)
	case "str", "obj":
		return n.P
	case "const":
		switch n.Val.T {
		case "i":
			return strconv.FormatInt(n.Val.N, 10)
		case "b":
			return fmt.Sprint(n.Val.V)
		case "s":
			return strconv.Quote(n.Val.S)
		}
	case "op":
		if n.Op == "not" && len(n.Args) == 1 {
			return "!(" + n.Args[0].text() + ")"
		}
		out := n.Args[0].text()
		for _, a := range n.Args[1:] {
			out = "(" + out + " " + jsonOpSym[n.Op] + " " + a.text() + ")"
		}
		return out
	}
	panic("json node " + n.J)
}

func (n *jnode) value() interface{} {
	switch n.J {
	case "num":
		return n.N
	case "bool":
		return n.V
	case "str":
		return n.P
	case "obj":
		return J{"obj": n.P}
	case "const":
		switch n.Val.T {
		case "i":
			return J{"const": n.Val.N}
		case "b":
			return J{"const": n.Val.V}
		case "s":
			return J{"const": n.Val.S}
		}
	case "op":
		args := []interface{}{}
		for _, a := range n.Args {
			args = append(args, a.value())
		}
		return J{n.Op: args}
	}
	panic("json node " + n.J)
}

type jsonCase struct {
	Fam   string `json:"fam"`
	JSON  *jnode `json:"json"`
	Typ   string `json:"typ"`
	Want  tval   `json:"want"`
	Str   string `json:"str"`
	Shape string `json:"shape"`
	Num   string `json:"num"`
	Form  string `json:"form"` // jsonnum: operand form; jsontree: "" (call action), "set" (set action), "text" (condition / actions as GRL text)
	Elems []struct {
		K    string `json:"k"`
		Desc string `json:"desc"`
		Sal  int    `json:"sal"`
	} `json:"elems"`
	Set struct {
		Accepted bool `json:"accepted"`
		Rules    []struct {
			Desc string `json:"desc"`
			Sal  int    `json:"sal"`
		} `json:"rules"`
	} `json:"set"`
}

// jsonSetCase builds the rule set of a "jsonset" case and checks acceptance, the rule headers, and that the
// translation of the array is the concatenation of the translations of its elements.
func jsonSetCase(c *jsonCase) (what string, want, got interface{}) {
	var elems []string
	for i, e := range c.Elems {
		name := fmt.Sprintf("R%d", i)
		r := J{"name": name, "when": J{"eq": []interface{}{J{"const": 1}, J{"const": 1}}},
			"then": []interface{}{J{"call": []interface{}{"Retract", J{"const": name}}}}}
		if e.Desc != "-" {
			r["desc"] = e.Desc
		}
		if e.Sal != 99 {
			r["salience"] = e.Sal
		}
		switch e.K {
		case "no-when":
			delete(r, "when")
		case "no-then":
			delete(r, "then")
		case "no-name":
			delete(r, "name")
		}
		b, _ := json.Marshal(r)
		if e.K == "null" {
			b = []byte("null")
		}
		elems = append(elems, string(b))
	}
	text := "[" + strings.Join(elems, ",") + "]"
	lib := ast.NewKnowledgeLibrary()
	err := buildJSON(lib, text)
	if (err == nil) != c.Set.Accepted {
		g := "accepted"
		if err != nil {
			g = "refused: " + err.Error()
		}
		return "rule set " + text, map[bool]string{true: "accepted", false: "refused"}[c.Set.Accepted], g
	}
	if err != nil {
		return "", nil, nil
	}
	whole, err := pkg.ParseJSONRuleset([]byte(text))
	if err != nil {
		return "translate " + text, "a translation", err.Error()
	}
	parts := ""
	for _, e := range elems {
		one, err := pkg.ParseJSONRule([]byte(e))
		if err != nil {
			return "translate " + e, "a translation", err.Error()
		}
		parts += one
	}
	if whole != parts {
		return "translation of " + text, parts, whole
	}
	kb := lib.GetKnowledgeBase("j", "1")
	for i, w := range c.Set.Rules {
		re, ok := kb.RuleEntries[fmt.Sprintf("R%d", i)]
		if !ok {
			return "rule set " + text, fmt.Sprintf("rule R%d", i), "absent"
		}
		if re.RuleDescription != w.Desc || re.Salience != w.Sal {
			return fmt.Sprintf("header of rule R%d of %s", i, text), fmt.Sprintf("%q salience %d", w.Desc, w.Sal), fmt.Sprintf("%q salience %d", re.RuleDescription, re.Salience)
		}
	}
	return "", nil, nil
}

type NumSink struct {
	F   float64
	Got map[string]float64
}

func (s *NumSink) Put(k string, v float64) { s.Got[k] = v }
func (s *NumSink) PutI(k string, v int64)  { s.Got[k] = float64(v) }

// jsonNumCase: the number of the case as a bare operand, inside {"const": }, or as a call argument.
func jsonNumCase(c *jsonCase) (what string, want, got interface{}) {
	x, err := strconv.ParseFloat(c.Num, 64)
	must(err)
	num := json.RawMessage(c.Num)
	put := "S.Put"
	if x == math.Trunc(x) && math.Abs(x) < 1e18 {
		put = "S.PutI" // a whole number is translated to an integer literal
	}
	var operand interface{} = num
	if c.Form == "const" {
		operand = J{"const": num}
	}
	rule := J{"name": "N", "desc": "d", "salience": 0, "when": J{"eq": []interface{}{"S.F", operand}},
		"then": []interface{}{J{"call": []interface{}{put, J{"const": "hit"}, operand}}, J{"call": []interface{}{"Retract", J{"const": "N"}}}}}
	if c.Form == "arg" {
		rule["when"] = J{"eq": []interface{}{J{"const": 1}, J{"const": 1}}}
		rule["then"] = []interface{}{J{"call": []interface{}{put, J{"const": "hit"}, num}}, J{"call": []interface{}{"Retract", J{"const": "N"}}}}
	}
	text, _ := json.Marshal(rule)
	grl, _ := pkg.ParseJSONRule(text)
	lib := ast.NewKnowledgeLibrary()
	if err := buildJSON(lib, string(text)); err != nil {
		return "number " + c.Num + " (" + c.Form + "): " + grl, "accepted", err.Error()
	}
	kb, err := lib.NewKnowledgeBaseInstance("j", "1")
	if err != nil {
		return "instantiate", "instance", err.Error()
	}
	s := &NumSink{F: x, Got: map[string]float64{}}
	dc := ast.NewDataContext()
	dc.Add("S", s)
	if err := (&engine.GruleEngine{MaxCycle: 5}).Execute(dc, kb); err != nil {
		return "number " + c.Num + " (" + c.Form + "): " + grl, "no error", err.Error()
	}
	if v, ok := s.Got["hit"]; !ok || v != x {
		g := "the rule did not fire"
		if ok {
			g = strconv.FormatFloat(v, 'g', -1, 64)
		}
		return "number " + c.Num + " (" + c.Form + "): " + grl, c.Num, g
	}
	return "", nil, nil
}

type JSink struct {
	Tmp string
	Sink
	A, Bv int64
	T     bool
}

var descs = []string{"plain", `say "hi"`, `back\slash`, "two\nlines", "it's", `q"\n`, ""}

func badRule(shape string) (string, bool) {
	ok := J{"name": "Bad", "desc": "d", "salience": 1, "when": J{"eq": []interface{}{1, 1}}, "then": []interface{}{J{"call": []interface{}{"Complete"}}}}
	mk := func(edit func(r J)) string { edit(ok); b, _ := json.Marshal(ok); return string(b) }
	switch shape {
	case "unknown-operator":
		return mk(func(r J) { r["when"] = J{"foo": []interface{}{1, 2}} }), true
	case "arity-0":
		return mk(func(r J) { r["when"] = J{"eq": []interface{}{}} }), true
	case "not-arity-0":
		return mk(func(r J) { r["when"] = J{"not": []interface{}{}} }), true
	case "and-arity-0":
		return mk(func(r J) { r["when"] = J{"and": []interface{}{}} }), true
	case "plus-arity-0-nested":
		return mk(func(r J) { r["when"] = J{"eq": []interface{}{J{"plus": []interface{}{}}, 1}} }), true
	case "not-arity-0-in-then":
		return mk(func(r J) { r["then"] = []interface{}{J{"call": []interface{}{"S.PutB", 1, J{"not": []interface{}{}}}}} }), true
	case "call-args-null":
		return mk(func(r J) { r["then"] = []interface{}{J{"call": nil}} }), true
	case "set-null":
		return mk(func(r J) { r["then"] = []interface{}{J{"set": nil}} }), true
	case "when-null-operands":
		return mk(func(r J) { r["when"] = J{"and": nil} }), true
	case "arity-1-eq":
		return mk(func(r J) { r["when"] = J{"eq": []interface{}{true}} }), true
	case "arity-1-plus":
		return mk(func(r J) { r["when"] = J{"eq": []interface{}{J{"plus": []interface{}{1}}, 1}} }), true
	case "arity-1-lt":
		return mk(func(r J) { r["when"] = J{"lt": []interface{}{1}} }), true
	case "set-arity-1":
		return mk(func(r J) { r["then"] = []interface{}{J{"set": []interface{}{"S.A"}}} }), true
	case "set-arity-3":
		return mk(func(r J) { r["then"] = []interface{}{J{"set": []interface{}{"S.A", 1, 2}}} }), true
	case "call-arity-0":
		return mk(func(r J) { r["then"] = []interface{}{J{"call": []interface{}{}}} }), true
	case "missing-name":
		return mk(func(r J) { delete(r, "name") }), true
	case "missing-when":
		return mk(func(r J) { delete(r, "when") }), true
	case "missing-then":
		return mk(func(r J) { delete(r, "then") }), true
	case "when-number":
		return mk(func(r J) { r["when"] = 5 }), true
	case "empty-input":
		return "", true
	case "blank-input":
		return " \n\t ", true
	case "not-json":
		return `{"name": "Bad", "when": `, true
	case "two-keys":
		return mk(func(r J) { r["when"] = J{"eq": []interface{}{1, 1}, "lt": []interface{}{1, 2}} }), true
	case "obj-not-string":
		return mk(func(r J) { r["when"] = J{"eq": []interface{}{J{"obj": 5}, 1}} }), true
	case "const-array":
		return mk(func(r J) { r["when"] = J{"eq": []interface{}{J{"const": []interface{}{1}}, 1}} }), true
	case "unknown-nested":
		return mk(func(r J) {
			r["when"] = J{"and": []interface{}{J{"eq": []interface{}{1, 1}}, J{"nope": []interface{}{1, 1}}}}
		}), true
	case "arity-1-nested":
		return mk(func(r J) {
			r["when"] = J{"and": []interface{}{J{"eq": []interface{}{1, 1}}, J{"gt": []interface{}{2}}}}
		}), true
	}
	return "", false
}

// a well-formed reference rule and its translation, taken before any malformed rule is seen by this process
const refRuleJSON = `{"name":"Ref","desc":"reference","salience":3,"when":{"and":[{"gt":["S.A",1]},{"not":[{"obj":"S.T"}]}]},"then":[{"set":["S.A",{"plus":["S.A",1]}]},{"call":["Retract",{"const":"Ref"}]}]}`

var refRuleGRL = func() string {
	g, err := pkg.ParseJSONRule([]byte(refRuleJSON))
	must(err)
	return g
}()

var reJSONRule = regexp.MustCompile(`rule ([CD]\d+)`)

// buildJSON runs the JSON text through the JSON resource and the GRL builder.
func buildJSON(lib *ast.KnowledgeLibrary, text string) error {
	res, err := pkg.NewJSONResourceFromResource(pkg.NewBytesResource([]byte(text)))
	if err != nil {
		return err
	}
	return builder.NewRuleBuilder(lib).BuildRuleFromResource("j", "1", res)
}

func cmdJSONReplay(args []string) {
	fs := flag.NewFlagSet("json-replay", flag.ExitOnError)
	in := fs.String("in", "cases.ndjson", "cases exported by TLC")
	out := fs.String("out", "mismatch.ndjson", "disagreements")
	batch := fs.Int("batch", 60, "rules per JSON rule set")
	fs.Parse(args)
	f, err := os.Open(*in)
	must(err)
	defer f.Close()
	of, err := os.Create(*out)
	must(err)
	defer of.Close()
	w := bufio.NewWriter(of)
	defer w.Flush()
	// every process first translates a rule whose operands are the numbers and booleans that some string constants of the cases
	// look like: what a later operand is translated to may not depend on what was translated before
	_, _ = pkg.ParseJSONRule([]byte(`{"name":"Warm","desc":"w","salience":0,"when":{"and":[{"eq":[{"const":4},{"const":2}]},{"eq":[{"const":true},{"const":false}]},
		{"eq":[{"const":3},{"const":6}]},{"eq":[{"const":10},{"plus":[{"const":4},{"const":6}]}]}]},"then":[{"call":["Complete"]}]}`))
	sc := bufio.NewScanner(f)
	sc.Buffer(make([]byte, 1<<20), 1<<24)
	n, bad, evals := 0, 0, 0
	fams := map[string]int{}
	type pending struct {
		key  int64
		rule J
		cond J // the same boolean tree as the condition of a companion rule (nil if none)
		c    *jsonCase
		raw  json.RawMessage
		desc string
		sal  int
	}
	var jobs []pending
	report := func(p *pending, c *jsonCase, raw json.RawMessage, what string, want, got interface{}, grl string) {
		bad++
		rec := J{"line": raw, "fam": c.Fam, "what": what, "want": want, "got": got, "grl": grl}
		if p != nil {
			rec["rule"] = p.rule
		}
		b, _ := json.Marshal(rec)
		w.Write(b)
		w.WriteByte('\n')
	}
	var runJobs func(js []pending)
	runJobs = func(js []pending) {
		if len(js) == 0 {
			return
		}
		rules := []interface{}{}
		for _, p := range js {
			rules = append(rules, p.rule)
			if p.cond != nil {
				rules = append(rules, p.cond)
			}
		}
		text, _ := json.Marshal(rules)
		lib := ast.NewKnowledgeLibrary()
		if err := buildJSON(lib, string(text)); err != nil {
			if len(js) == 1 {
				one, _ := json.Marshal(js[0].rule)
				grl, _ := pkg.ParseJSONRule(one)
				report(&js[0], js[0].c, js[0].raw, "translate+build", "accepted", err.Error(), grl)
				return
			}
			runJobs(js[:len(js)/2])
			runJobs(js[len(js)/2:])
			return
		}
		kb, err := lib.NewKnowledgeBaseInstance("j", "1")
		if err != nil {
			for i := range js {
				report(&js[i], js[i].c, js[i].raw, "instantiate", "instance", err.Error(), "")
			}
			return
		}
		// name, description and salience arrive as given
		for i := range js {
			p := &js[i]
			re, ok := kb.RuleEntries["C"+strconv.FormatInt(p.key, 10)]
			if !ok {
				report(p, p.c, p.raw, "rule name", "C"+strconv.FormatInt(p.key, 10), "absent", "")
				continue
			}
			if re.RuleDescription != p.desc {
				report(p, p.c, p.raw, "description", p.desc, re.RuleDescription, "")
			}
			if re.Salience != p.sal {
				report(p, p.c, p.raw, "salience", p.sal, re.Salience, "")
			}
		}
		eng := &engine.GruleEngine{MaxCycle: uint64(2*len(js) + 2)}
		errs := map[int64]string{}
		var s *JSink
		for {
			s = &JSink{Sink: *newSink(), A: 6, Bv: 3, T: true}
			dc := ast.NewDataContext()
			dc.Add("S", s)
			err := eng.Execute(dc, kb)
			if err == nil {
				break
			}
			m := reJSONRule.FindStringSubmatch(err.Error())
			if m == nil {
				for i := range js {
					report(&js[i], js[i].c, js[i].raw, "execute", "no error", err.Error(), "")
				}
				return
			}
			k, _ := strconv.ParseInt(m[1][1:], 10, 64)
			if _, dup := errs[k]; dup {
				break
			}
			errs[k] = err.Error()
			kb.RemoveRuleEntry(m[1])
		}
		for i := range js {
			p := &js[i]
			evals++
			if e, failed := errs[p.key]; failed {
				one, _ := json.Marshal(p.rule)
				grl, _ := pkg.ParseJSONRule(one)
				report(p, p.c, p.raw, "value", p.c.Want, "error: "+e, grl)
				continue
			}
			ok, got := false, ""
			switch p.c.Want.T {
			case "i":
				v, has := s.I[p.key]
				got, ok = fmt.Sprint(v), has && v == p.c.Want.N
			case "r":
				v, has := s.R[p.key]
				got, ok = fmt.Sprint(v), has && v == float64(p.c.Want.N)/float64(p.c.Want.D)
			case "b":
				v, has := s.B[p.key]
				got, ok = fmt.Sprint(v), has && v == p.c.Want.V.(bool)
				// a boolean tree is also the rule's condition: the marker action ran iff it is true
				if _, fired := s.I[-p.key]; ok && fired != p.c.Want.V.(bool) {
					ok, got = false, fmt.Sprintf("condition fired=%v", fired)
				}
			case "s":
				v, has := s.S[p.key]
				got, ok = v, has && v == p.c.Want.S
			case "none":
				ok = true
			}
			if !ok {
				one, _ := json.Marshal(p.rule)
				grl, _ := pkg.ParseJSONRule(one)
				report(p, p.c, p.raw, "value", p.c.Want, got, grl)
			}
		}
	}
	var key int64
	for sc.Scan() {
		line := bytes.TrimSpace(sc.Bytes())
		if len(line) == 0 {
			continue
		}
		c := &jsonCase{}
		must(json.Unmarshal(line, c))
		raw := append(json.RawMessage{}, line...)
		n++
		fams[c.Fam]++
		key++
		name := "C" + strconv.FormatInt(key, 10)
		desc := descs[n%len(descs)]
		sal := int(key%11) - 5
		retract := J{"call": []interface{}{"Retract", J{"const": name}}}
		switch c.Fam {
		case "jsontree":
			put := map[string]string{"i": "S.PutI", "r": "S.PutR", "b": "S.PutB"}[c.Want.T]
			rule := J{"name": name, "desc": desc, "salience": sal, "when": "true",
				"then": []interface{}{J{"call": []interface{}{put, key, c.JSON.value()}}, retract}}
			switch c.Form {
			case "set":
				target := map[string]string{"i": "S.I", "r": "S.R", "b": "S.B"}[c.Want.T] + "[" + strconv.FormatInt(key, 10) + "]"
				rule["then"] = []interface{}{J{"set": []interface{}{target, c.JSON.value()}}, retract}
			case "text":
				act := put + "(" + strconv.FormatInt(key, 10) + ", " + c.JSON.text() + ")"
				if key%2 == 0 {
					act += ";"
				}
				rule["then"] = []interface{}{act, "Retract(\"" + name + "\")" + map[bool]string{true: ";", false: ""}[key%3 == 0]}
			}
			p := pending{key: key, rule: rule, c: c, raw: raw, desc: desc, sal: sal}
			if c.Want.T == "b" {
				// the same tree as the condition of a companion rule
				name2 := "D" + strconv.FormatInt(key, 10)
				var when interface{} = c.JSON.value()
				if c.Form == "text" {
					when = c.JSON.text()
				}
				p.cond = J{"name": name2, "desc": desc, "salience": sal, "when": when,
					"then": []interface{}{J{"call": []interface{}{"S.PutI", -key, 1}}, J{"call": []interface{}{"Retract", J{"const": name2}}}}}
			}
			jobs = append(jobs, p)
		case "jsonstr":
			// the string as a constant argument, in a condition, and as the description
			// (the constant also as the value of a set action and as an operand of a comparison with what a fact holds)
			rule := J{"name": name, "desc": c.Str, "salience": sal, "when": J{"eq": []interface{}{J{"const": c.Str}, J{"const": c.Str}}},
				"then": []interface{}{J{"set": []interface{}{"S.Tmp", J{"const": c.Str}}}, J{"call": []interface{}{"S.PutS", key, "S.Tmp"}}, retract}}
			jobs = append(jobs, pending{key: key, rule: rule, c: c, raw: raw, desc: c.Str, sal: sal})
		case "jsonset", "jsonnum":
			func() {
				defer func() {
					if r := recover(); r != nil {
						report(nil, c, raw, c.Fam, "a result or an error", fmt.Sprintf("panic: %v", r), "")
					}
				}()
				what, want, got := "", interface{}(nil), interface{}(nil)
				if c.Fam == "jsonset" {
					what, want, got = jsonSetCase(c)
				} else {
					what, want, got = jsonNumCase(c)
				}
				if what != "" {
					report(nil, c, raw, what, want, got, "")
				}
			}()
			evals++
		case "jsonbad":
			text, known := badRule(c.Shape)
			if !known {
				must(fmt.Errorf("unknown malformed shape %s", c.Shape))
			}
			lib := ast.NewKnowledgeLibrary()
			func() {
				defer func() {
					if r := recover(); r != nil {
						report(nil, c, raw, "malformed rule "+c.Shape, "an error", fmt.Sprintf("panic: %v", r), "")
					}
				}()
				if err := buildJSON(lib, text); err == nil {
					grl, _ := pkg.ParseJSONRule([]byte(text))
					report(nil, c, raw, "malformed rule "+c.Shape, "an error", "accepted", grl)
				}
				if !strings.HasPrefix(strings.TrimSpace(text), "{") {
					return
				}
				if err := buildJSON(ast.NewKnowledgeLibrary(), "["+text+"]"); err == nil {
					report(nil, c, raw, "malformed rule "+c.Shape+" inside a rule set", "an error", "accepted", "")
				}
				// a refused rule leaves the translator as it was: a well-formed rule translated next gets its own text
				if got, err := pkg.ParseJSONRule([]byte(refRuleJSON)); err != nil || got != refRuleGRL {
					g := got
					if err != nil {
						g = "error: " + err.Error()
					}
					report(nil, c, raw, "translation of a well-formed rule after the refused rule "+c.Shape, refRuleGRL, g, "")
				}
				if err := buildJSON(ast.NewKnowledgeLibrary(), "["+refRuleJSON+","+text+"]"); err == nil {
					report(nil, c, raw, "malformed rule "+c.Shape+" behind a well-formed rule", "an error", "accepted", "")
				}
			}()
			evals++
		}
		if len(jobs) >= *batch {
			runJobs(jobs)
			jobs = nil
		}
	}
	runJobs(jobs)
	st, _ := json.Marshal(J{"cases": n, "evaluations": evals, "disagreements": bad, "families": fams})
	fmt.Println("STATS", string(st))
}
