package main

// Fact model used by the engine-level drivers. Every access path of the documented core is present:
// direct fields, a nested pointer, a (possibly nil) pointer, a slice, a map, a top-level variable (N) and
// instrumented methods whose real invocations are logged (an atom served from the memo produces no line).

import (
	"encoding/json"
	"fmt"
	"sort"
	"strconv"
	"time"

	"github.com/hyperjumptech/grule-rule-engine/ast"
	"github.com/hyperjumptech/grule-rule-engine/model"
)

type Sub struct {
	V int64
	S string
}

type Fact struct {
	X, Y, Z int64
	XX      int64 // "F.X" is a proper prefix of its text: assigning F.X concerns nothing that mentions F.XX
	H       int64 // its text "F.H" is a prefix of the method text "F.Heavy(": assigning it concerns no method atom
	K       int
	W       int32
	B, C    bool
	S, T    string
	I       int64
	P       *Sub
	Q       *Sub // may be nil
	Spare   *Sub // no rule reads it; the action F.P = F.Spare re-points F.P to it
	Arr     []int64
	Out     []int64 // written by rules (F.Out[<computed selector>] = ...), never read by one
	M       map[string]int64
	Once    int64 // written only by Mark(), never read by a rule
	St      int64 // written only by Stamp(), never read by a rule

	born time.Time // when the data context of the present call was made (the abstract clock: 1 = the present call, 2 = earlier)

	hook func(ev J) // call log (nil = off)
	gate func(site string)
}

func (f *Fact) logCall(m string, args []interface{}, res interface{}) {
	if f.gate != nil {
		f.gate("call:" + m)
	}
	if f.hook != nil {
		f.hook(J{"ev": "call", "m": m, "args": args, "res": res})
	}
}

// GetX is a reader of F.X that the working memory cannot see through.
func (f *Fact) GetX() int64 { f.logCall("GetX", []interface{}{}, f.X); return f.X }

// GetPV reads F.P.V (panics when P is nil).
func (f *Fact) GetPV() int64 { v := f.P.V; f.logCall("GetPV", []interface{}{}, v); return v }

// Sum is pure.
func (f *Fact) Sum(a, b int64) int64 { f.logCall("Sum", []interface{}{a, b}, a+b); return a + b }

// Heavy is pure and "expensive": the counted method of C13.
func (f *Fact) Heavy(a int64) int64 { r := a * 2; f.logCall("Heavy", []interface{}{a}, r); return r }

// HeavyB is its boolean sibling (false for 0 and 1: zero-valued results are results too).
func (f *Fact) HeavyB(a int64) bool { r := a > 1; f.logCall("HeavyB", []interface{}{a}, r); return r }

// HeavyV and HeavyP are counted methods whose result is not used as it is: a rule reads an element of the slice, or a member
// of the struct, the call yields (F.HeavyV(x)[1], F.HeavyP(x).V). The call is the remembered atom, the selection is not.
func (f *Fact) HeavyV(a int64) []int64 {
	f.logCall("HeavyV", []interface{}{a}, a*2)
	return []int64{a * 2, a + 1}
}

// HeavyPt is what HeavyP yields.
type HeavyPt struct{ V int64 }

func (f *Fact) HeavyP(a int64) *HeavyPt { f.logCall("HeavyP", []interface{}{a}, a*3); return &HeavyPt{V: a * 3} }

// IsPos is pure.
func (f *Fact) IsPos(a int64) bool { f.logCall("IsPos", []interface{}{a}, a > 0); return a > 0 }

// Risky panics on 13 and returns its argument otherwise: a data-driven failing user method.
func (f *Fact) Risky(a int64) int64 {
	if a == 13 {
		f.logCall("Risky", []interface{}{a}, "panic")
		panic("Risky(13)")
	}
	f.logCall("Risky", []interface{}{a}, a)
	return a
}

// SetX / SetY change a field behind the engine's back (the rule must announce it with Forget/Changed).
func (f *Fact) SetX(v int64) { f.X = v; f.logCall("SetX", []interface{}{v}, 0) }
func (f *Fact) SetY(v int64) { f.Y = v; f.logCall("SetY", []interface{}{v}, 0) }

// SetRisky is a setter of F.Y that panics on 13: a method WITHOUT a result failing in a call statement.
func (f *Fact) SetRisky(v int64) {
	if v == 13 {
		f.logCall("SetRisky", []interface{}{v}, "panic")
		panic("SetRisky(13)")
	}
	f.Y = v
	f.logCall("SetRisky", []interface{}{v}, 0)
}

// Mark records that a method-call action ran: no rule reads F.Once, so no Forget is needed.
func (f *Fact) Mark(v int64) { f.Once = f.Once*10 + v; f.logCall("Mark", []interface{}{v}, 0) }

// epoch projects an instant to the abstract clock of the specification: 1 when it lies in the present call (not before the
// call's data context was made), 2 when it is older - a value of Now() left over from an earlier call on the instance.
func (f *Fact) epoch(t time.Time) int64 {
	if t.Before(f.born) {
		return 2
	}
	return 1
}

// Stamp records when a rule ran: what Now() yields in an action must be an instant of the present call.
func (f *Fact) Stamp(t time.Time) {
	v := f.epoch(t)
	f.St = f.St*10 + v
	f.logCall("Stamp", []interface{}{v}, 0)
}

// Fresh tells whether an instant lies in the present call: what Now() yields in a condition does.
func (f *Fact) Fresh(t time.Time) bool {
	v := f.epoch(t)
	f.logCall("Fresh", []interface{}{v}, v == 1)
	return v == 1
}

func cloneFact(f *Fact) *Fact {
	g := *f
	g.hook, g.gate = nil, nil
	if f.P != nil {
		p := *f.P
		g.P = &p
	}
	if f.Q != nil {
		q := *f.Q
		g.Q = &q
	}
	if f.Spare != nil {
		sp := *f.Spare
		g.Spare = &sp
	}
	g.Arr = append([]int64{}, f.Arr...)
	g.Out = append([]int64{}, f.Out...)
	g.M = map[string]int64{}
	for k, v := range f.M {
		g.M[k] = v
	}
	return &g
}

// JFact is the content of the JSON fact J: {"a":A,"o":{"n":N},"arr":[..],"t":T,"s":S}
type JFact struct {
	A int64 `json:"a"`
	O struct {
		N int64 `json:"n"`
	} `json:"o"`
	Arr []int64 `json:"arr"`
	T   bool    `json:"t"`
	S   string  `json:"s"`
}

// World is one data context worth of facts.
type World struct {
	F    *Fact
	N    int64
	HasN bool
	J    *JFact // JSON fact (nil = none)
	dc   ast.IDataContext
}

func (w *World) Clone() *World {
	c := &World{F: cloneFact(w.F), N: w.N, HasN: w.HasN}
	if w.J != nil {
		j := *w.J
		j.Arr = append([]int64{}, w.J.Arr...)
		c.J = &j
	}
	return c
}

func (w *World) DataContext() ast.IDataContext {
	// the present call begins: every instant read from now on is later than every instant read before
	for t0 := time.Now(); !time.Now().After(t0); {
	}
	w.F.born = time.Now()
	dc := ast.NewDataContext()
	if err := dc.Add("F", w.F); err != nil {
		panic(err)
	}
	if w.HasN {
		if err := dc.Add("N", w.N); err != nil {
			panic(err)
		}
	}
	if w.J != nil {
		b, _ := json.Marshal(w.J)
		if err := dc.AddJSON("J", b); err != nil {
			panic(err)
		}
	}
	w.dc = dc
	return dc
}

// jsonValue reads a member of the JSON fact through the value-node API and projects it to int64 / bool / string.
func (w *World) jsonValue(path ...interface{}) interface{} {
	var node model.ValueNode = w.dc.Get("J")
	for _, p := range path {
		var err error
		switch x := p.(type) {
		case string:
			node, err = node.GetChildNodeByField(x)
		case int:
			node, err = node.GetChildNodeByIndex(x)
		}
		if err != nil {
			panic("JSON fact: " + err.Error())
		}
	}
	v := node.Value()
	switch v.Kind().String() {
	case "float64", "float32":
		i := int64(v.Float())
		if float64(i) != v.Float() {
			return notIntegral // (the specification computes integers only: this never agrees with it)
		}
		return i
	case "int64", "int", "int32", "int16", "int8":
		return v.Int()
	case "bool":
		return v.Bool()
	case "string":
		return v.String()
	}
	panic(fmt.Sprintf("JSON member %v has kind %s", path, v.Kind()))
}

// notIntegral is the projection of a number that is not whole (1.25, +Inf, NaN): no value of the specification, whose numbers
// are small integers, equals it, so the state it occurs in disagrees with the model instead of stopping the driver.
const notIntegral = int64(-2000000011)

// Snapshot is the full projection of the fact state: location key -> value, exactly the keys the
// specification computes from an access path.
func (w *World) Snapshot() J {
	f := w.F
	s := J{"F.X": f.X, "F.Y": f.Y, "F.Z": f.Z, "F.K": int64(f.K), "F.W": int64(f.W), "F.B": f.B, "F.C": f.C,
		"F.S": f.S, "F.T": f.T, "F.I": f.I, "F.Once": f.Once, "F.St": f.St, "F.H": f.H, "F.XX": f.XX}
	if f.P != nil {
		s["F.P.V"] = f.P.V
		s["F.P.S"] = f.P.S
	}
	s["F.P@"] = int64(0) // 1 once F.P points to the spare object
	if f.P != nil && f.P == f.Spare {
		s["F.P@"] = int64(1)
	}
	if f.Q != nil {
		s["F.Q.V"] = f.Q.V
		s["F.Q.S"] = f.Q.S
	}
	for i, v := range f.Arr {
		s["F.Arr["+strconv.Itoa(i)+"]"] = v
	}
	for i, v := range f.Out {
		s["F.Out["+strconv.Itoa(i)+"]"] = v
	}
	keys := make([]string, 0, len(f.M))
	for k := range f.M {
		keys = append(keys, k)
	}
	sort.Strings(keys)
	for _, k := range keys {
		s["F.M["+k+"]"] = f.M[k]
	}
	if w.J != nil {
		if w.dc == nil {
			s["J.a"], s["J.o.n"], s["J.t"], s["J.s"] = w.J.A, w.J.O.N, w.J.T, w.J.S
			for i, v := range w.J.Arr {
				s["J.arr["+strconv.Itoa(i)+"]"] = v
			}
		} else {
			s["J.a"], s["J.o.n"], s["J.t"], s["J.s"] = w.jsonValue("a"), w.jsonValue("o", "n"), w.jsonValue("t"), w.jsonValue("s")
			for i := range w.J.Arr {
				s["J.arr["+strconv.Itoa(i)+"]"] = w.jsonValue("arr", i)
			}
		}
	}
	if w.HasN {
		n := w.N
		if w.dc != nil {
			if vn := w.dc.Get("N"); vn != nil {
				switch vn.Value().Kind().String() {
				case "int64", "int", "int32":
					n = vn.Value().Int()
				case "float64":
					n = int64(vn.Value().Float())
					if float64(n) != vn.Value().Float() {
						n = notIntegral
					}
				default:
					panic("N has kind " + vn.Value().Kind().String())
				}
			}
		}
		s["N"] = n
	}
	return s
}

// TooBig reports whether some value left the range TLC can handle comfortably (32-bit integers).
func TooBig(s J) bool {
	for _, v := range s {
		if i, ok := v.(int64); ok && (i > 1<<20 || i < -(1<<20)) {
			return true
		}
	}
	return false
}
