package main

// Instantiates the dependency patterns TLC enumerates in spec/GruleMemo.tla (layer M, taint abstraction) as
// concrete rule sets and runs them on the real engine: writer rule W (condition atom, assignment to a target path
// from a constant or a path), reader rule R (condition of every shape over the path kinds), selector value, both
// salience orders, several fact states. The traces go to the layer-A monitor like any other.

import (
	"bufio"
	"bytes"
	"encoding/json"
	"flag"
	"fmt"
	"math/rand"
	"os"
	"time"
)

type patCond struct {
	K string   `json:"k"`
	P string   `json:"p"`
	L *patCond `json:"l"`
	R *patCond `json:"r"`
}

type patCase struct {
	W struct {
		W    patCond `json:"w"`
		T    string  `json:"t"`
		Rhs  string  `json:"rhs"`
		Ctl  string  `json:"ctl"`  // "complete" / "retract": a control call placed before the assignment
		Post bool    `json:"post"` // a further action F.C = <the reader's condition> after the assignment
	} `json:"w"`
	R struct {
		W patCond `json:"w"`
	} `json:"r"`
	Sel int `json:"sel"`
}

func patPath(p string) *Path {
	switch p {
	case "N":
		return P("N")
	case "X":
		return P("F.X")
	case "I":
		return P("F.I")
	case "A0":
		return P("F.Arr[0]")
	case "AI":
		return P("F.Arr").With(Step{Sel: P("F.I"), SelT: "i"})
	case "AJ": // out of range when I = 1
		return P("F.Arr").With(Step{Sel: &Bin{Op: "+", L: P("F.I"), R: CI(1)}, SelT: "i"})
	}
	panic("pattern path " + p)
}

func (c *patCond) expr() Expr {
	switch c.K {
	case "a":
		return &Bin{Op: "==", L: patPath(c.P), R: CI(1)}
	case "not":
		return &Not{E: c.L.expr()}
	case "and":
		return &Bin{Op: "&&", L: c.L.expr(), R: c.R.expr()}
	case "or":
		return &Bin{Op: "||", L: c.L.expr(), R: c.R.expr()}
	}
	panic("pattern cond " + c.K)
}

func cmdPatternTraces(args []string) {
	fs := flag.NewFlagSet("pattern-traces", flag.ExitOnError)
	in := fs.String("in", "patterns.ndjson", "patterns exported by TLC")
	out := fs.String("out", "trace.ndjson", "trace file")
	casesOut := fs.String("cases", "cases.ndjson", "case file")
	seed := fs.Int64("seed", 1, "seed")
	worlds := fs.Int("worlds", 3, "fact states per pattern")
	flagp := fs.Float64("flagp", 0, "probability of ReturnErrOnFailedRuleEvaluation")
	bystander := fs.Bool("bystander", false, "add a third rule that fires once and touches nothing the other two read (a cycle in which nothing is invalidated)")
	variants := []string{"fresh", "reloaded", "second", "multi", "json", "sharedctx"}
	fs.Parse(args)
	r := rand.New(rand.NewSource(*seed))
	f, err := os.Open(*in)
	must(err)
	defer f.Close()
	tf, err := os.Create(*out)
	must(err)
	defer tf.Close()
	tw := bufio.NewWriterSize(tf, 1<<20)
	defer tw.Flush()
	cf, err := os.Create(*casesOut)
	must(err)
	defer cf.Close()
	cw := bufio.NewWriterSize(cf, 1<<20)
	defer cw.Flush()
	sc := bufio.NewScanner(f)
	sc.Buffer(make([]byte, 1<<20), 1<<24)
	id, n, events := 0, 0, 0
	for sc.Scan() {
		line := bytes.TrimSpace(sc.Bytes())
		if len(line) == 0 {
			continue
		}
		var pc patCase
		must(json.Unmarshal(line, &pc))
		n++
		var rhs Expr
		switch pc.W.Rhs {
		case "c":
			rhs = CI(int64(r.Intn(2)))
		default:
			rhs = patPath(pc.W.Rhs)
		}
		wsal, rsal := int64(1), int64(0)
		if r.Intn(2) == 0 {
			wsal, rsal = 0, 1
		}
		var wacts []*Action
		switch pc.W.Ctl {
		case "complete":
			wacts = append(wacts, &Action{Kind: "complete"})
		case "retract":
			wacts = append(wacts, &Action{Kind: "retract", Name: "W"})
		}
		wacts = append(wacts, &Action{Kind: "asg", Path: patPath(pc.W.T), Form: "=", E: rhs})
		if pc.W.Post {
			wacts = append(wacts, &Action{Kind: "asg", Path: P("F.C"), Form: "=", E: pc.R.W.expr()})
		}
		prog := &Program{Rules: []*Rule{
			{Name: "W", HasSal: true, Sal: wsal, When: pc.W.W.expr(), Bare: r.Intn(2) == 0, Then: wacts},
			{Name: "R", HasSal: true, Sal: rsal, When: pc.R.W.expr(), Bare: r.Intn(2) == 0,
				Then: []*Action{{Kind: "set", Name: "Mark", E: CI(2), Once: true}, {Kind: "retract", Name: "R"}}},
		}}
		if *bystander {
			// its salience lies between, above or below the two: in whichever cycle it fires, what was remembered stays as it is
			// (half of the bystanders become satisfied only once the selector is 1 - the value for which the failing atom fails - and
			//  outrank the other two: they fire in exactly the cycle in which the reader's condition first fails)
			when := Expr(&Bin{Op: "==", L: P("F.Z"), R: P("F.Z")})
			sal := []int64{-1, 0, 1, 2}[r.Intn(4)]
			if r.Intn(2) == 0 {
				when, sal = &Bin{Op: "==", L: P("F.I"), R: CI(1)}, 5
			}
			prog.Rules = append(prog.Rules, &Rule{Name: "T", HasSal: true, Sal: sal, When: when,
				Then: []*Action{{Kind: "set", Name: "Mark", E: CI(3), Once: true}, {Kind: "retract", Name: "T"}}})
		}
		rules, _ := json.Marshal(prog.JS())
		for k := 0; k < *worlds; k++ {
			bit := func() int64 { return int64(r.Intn(2)) }
			w := &World{F: &Fact{X: bit(), I: int64(pc.Sel), Arr: []int64{bit(), bit()}, M: map[string]int64{"a": 0, "b": 0}, P: &Sub{}, Q: &Sub{},
				Spare: &Sub{V: 7, S: "sp"}}, N: bit(), HasN: true}
			if k > 0 && r.Intn(2) == 0 {
				w.F.I = bit()
			}
			c := &Case{ID: id, GRL: prog.GRL(), JSONRules: prog.JSONText(), Parts: prog.Parts(2), RulesJS: rules, Variant: variants[r.Intn(len(variants))], Profile: "pattern", Listener: 1,
				Counted: json.RawMessage(`{"k":"none"}`), Other: &World{F: &Fact{X: bit(), I: bit(), Arr: []int64{bit(), bit()}, M: map[string]int64{"a": 0, "b": 0},
					P: &Sub{}, Q: &Sub{}, Spare: &Sub{V: 7, S: "sp"}}, N: bit(), HasN: true},
				Calls: []CallCfg{{Mode: "exec", World: w, Max: uint64(2 + r.Intn(3) + map[bool]int{true: 1}[*bystander]), CancelAt: -1, Flag: r.Float64() < *flagp}}}
			id++
			var buf bytes.Buffer
			em := NewEmitter(&buf)
			RunCase(c, em, 20*time.Second)
			em.Flush()
			tw.Write(buf.Bytes())
			cb, _ := json.Marshal(c)
			cw.Write(cb)
			cw.WriteByte('\n')
			events += em.n
		}
	}
	fmt.Printf("STATS {\"cases\": %d, \"runs\": %d, \"events\": %d, \"dropped_big\": 0}\n", n, id, events)
}
