package main

// C08: realises the call histories TLC exports from spec/GruleReuse.tla on ONE real instance: a fixed rule set whose
// way of ending is chosen by the facts (quiescence, Complete, action error, cycle limit, cancellation; for Fetch:
// plain result or evaluation error), every call after a rule retracted itself and values were remembered.

import (
	"bufio"
	"bytes"
	"encoding/json"
	"flag"
	"fmt"
	"math/rand"
	"os"
	"time"
)

type reuseCase struct {
	Calls []struct {
		Kind   string `json:"kind"`
		Ending string `json:"ending"`
	} `json:"calls"`
}

func reuseProgram(shared bool) *Program {
	eq := func(p string, v int64) Expr { return &Bin{Op: "==", L: P(p), R: CI(v)} }
	inc := func(p string, v int64) *Action {
		return &Action{Kind: "asg", Path: P(p), Form: "=", E: &Bin{Op: "+", L: P(p), R: CI(v)}}
	}
	heavy := &Call{Recv: P("F"), Fn: "Heavy", Args: []Expr{&Bin{Op: "+", L: P("F.K"), R: CI(0)}}}
	loopCond := Expr(eq("F.X", 3))
	normCond := Expr(&Bin{Op: "&&", L: &Bin{Op: "&&", L: eq("F.X", 0), R: &Bin{Op: "<", L: P("F.Y"), R: CI(2)}},
		R: &Call{Recv: P("F"), Fn: "Fresh", Args: []Expr{&NowE{}}}})
	if shared {
		loopCond = &Bin{Op: "&&", L: eq("F.X", 3), R: &Bin{Op: ">", L: heavy, R: CI(0)}}
		normCond = &Bin{Op: "&&", L: normCond, R: &Bin{Op: ">", L: heavy, R: CI(0)}}
	}
	return &Program{Rules: []*Rule{
		{Name: "Ret", HasSal: true, Sal: 9, When: eq("F.Z", 0),
			Then: []*Action{{Kind: "asg", Path: P("F.Z"), Form: "=", E: CI(1)}, {Kind: "set", Name: "Mark", E: CI(1), Once: true},
				{Kind: "set", Name: "Stamp", E: &NowE{}, Once: true}, {Kind: "retract", Name: "Ret"}}},
		{Name: "Comp", HasSal: true, Sal: 5, When: eq("F.X", 1), Then: []*Action{inc("F.Y", 10), {Kind: "complete"}, inc("F.W", 1)}},
		{Name: "Err", HasSal: true, Sal: 5, When: eq("F.X", 2), Then: []*Action{inc("F.Y", 20), {Kind: "asg", Path: P("F.Q.V"), Form: "=", E: CI(1)}, inc("F.W", 1)}},
		{Name: "Loop", HasSal: true, Sal: 5, When: loopCond, Then: []*Action{inc("F.Y", 1)}},
		{Name: "Slow", HasSal: true, Sal: 5, When: eq("F.X", 4), Then: []*Action{inc("F.Y", 1)}},
		{Name: "Bad", HasSal: true, Sal: 1, When: &Bin{Op: "&&", L: eq("F.X", 5), R: eq("F.Q.V", 1)}, Then: []*Action{{Kind: "asg", Path: P("F.Y"), Form: "=", E: CI(0)}}},
		{Name: "Norm", HasSal: true, Sal: 2, When: normCond, Then: []*Action{inc("F.Y", 1)}},
	}}
}

func cmdReuseTraces(args []string) {
	fs := flag.NewFlagSet("reuse-traces", flag.ExitOnError)
	in := fs.String("in", "histories.ndjson", "call histories exported by TLC")
	out := fs.String("out", "trace.ndjson", "trace file")
	casesOut := fs.String("cases", "cases.ndjson", "case file")
	seed := fs.Int64("seed", 1, "seed")
	fs.Parse(args)
	r := rand.New(rand.NewSource(*seed))
	f, err := os.Open(*in)
	must(err)
	defer f.Close()
	tf, err := os.Create(*out)
	must(err)
	defer tf.Close()
	tw := bufio.NewWriterSize(tf, 1<<20)
	defer tw.Flush()
	cf, err := os.Create(*casesOut)
	must(err)
	defer cf.Close()
	cw := bufio.NewWriterSize(cf, 1<<20)
	defer cw.Flush()
	progs := []*Program{reuseProgram(false), reuseProgram(true)}
	var rules [2]json.RawMessage
	for i, p := range progs {
		rules[i], _ = json.Marshal(p.JS())
	}
	sc := bufio.NewScanner(f)
	sc.Buffer(make([]byte, 1<<20), 1<<24)
	id, n, events := 0, 0, 0
	xOf := map[string]int64{"normal": 0, "complete": 1, "acterr": 2, "max": 3, "cancel": 4}
	for sc.Scan() {
		line := bytes.TrimSpace(sc.Bytes())
		if len(line) == 0 {
			continue
		}
		var rc reuseCase
		must(json.Unmarshal(line, &rc))
		n++
		pi := n % 2
		c := &Case{ID: id, GRL: progs[pi].GRL(), JSONRules: progs[pi].JSONText(), Parts: progs[pi].Parts(2), RulesJS: rules[pi], Variant: []string{"fresh", "reloaded", "multi", "json"}[n%4], Profile: "reuse",
			Listener: 1, Counted: json.RawMessage(`{"k":"none"}`)}
		id++
		for _, call := range rc.Calls {
			w := &World{F: &Fact{Y: int64(r.Intn(2)), K: r.Intn(3), Arr: []int64{0, 0}, M: map[string]int64{"a": 0, "b": 0}, P: &Sub{}, Spare: &Sub{V: 7, S: "sp"}}, HasN: true}
			cc := CallCfg{Mode: "exec", World: w, Max: 4, CancelAt: -1, UseCtx: call.Kind == "execctx"}
			if call.Kind == "fetch" {
				cc.Mode = "fetch"
				w.F.X = int64(r.Intn(5))
				if call.Ending != "normal" {
					w.F.X, cc.Flag = 5, true // the condition of Bad fails: the error must be returned
				}
			} else {
				w.F.X = xOf[call.Ending]
				if call.Ending == "cancel" {
					cc.CancelAt = 2 + r.Intn(12)
					cc.UseCtx = true
				}
			}
			c.Calls = append(c.Calls, cc)
		}
		var buf bytes.Buffer
		em := NewEmitter(&buf)
		RunCase(c, em, 20*time.Second)
		em.Flush()
		tw.Write(buf.Bytes())
		cb, _ := json.Marshal(c)
		cw.Write(cb)
		cw.WriteByte('\n')
		events += em.n
	}
	fmt.Printf("STATS {\"cases\": %d, \"runs\": %d, \"events\": %d, \"dropped_big\": 0}\n", n, id, events)
}
