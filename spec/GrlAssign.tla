------------------------------ MODULE GrlAssign ------------------------------
(***************************************************************************)
(* C04: what a rule's action list does to the facts.  The store is a       *)
(* function from locations - struct fields of every numeric width, fields  *)
(* behind a pointer, pointers to numbers, slice elements, map entries,     *)
(* JSON members and array elements, top-level context variables - to       *)
(* values; an assignment  target form rhs  stores                          *)
(*     Convert(kind(target), Combine(form, store[target], Eval(rhs)))      *)
(* at exactly that location (frame condition by construction), the next    *)
(* action sees the store the previous one left.  TLC enumerates every      *)
(* single assignment and every pair whose second right-hand side reads the *)
(* first target, and exports the expected final store.                     *)
(***************************************************************************)
EXTENDS GrlExpr

\* locations: name (the harness maps it to a GRL path and a Go / JSON / context place), kind, initial value
L(n, k, v) == [n |-> n, k |-> k, v |-> v]
TM(k) == [t |-> "t", n |-> k]                     \* a point in time: MakeTime(2020, 1, 1, 0, 0, k)
IntKinds == {"int", "int8", "int16", "int32", "int64"}
UintKinds == {"uint", "uint8", "uint16", "uint32", "uint64"}
FloatKinds == {"float32", "float64"}
Locs == { L("F.I8", "int8", I(5)), L("F.I16", "int16", I(6)), L("F.I32", "int32", I(7)), L("F.I64", "int64", I(8)), L("F.I", "int", I(9)),
          L("F.U8", "uint8", I(10)), L("F.U16", "uint16", I(11)), L("F.U32", "uint32", I(12)), L("F.U64", "uint64", I(13)), L("F.U", "uint", I(14)),
          L("F.F32", "float32", R(3, 2)), L("F.F64", "float64", R(5, 2)), L("F.S", "string", S("s")), L("F.B", "bool", B(TRUE)),
          L("F.P.I64", "int64", I(20)), L("F.P.F64", "float64", R(7, 2)), L("F.P.S", "string", S("p")), L("F.P.I8", "int8", I(21)),
          L("F.P.U16", "uint16", I(22)), L("F.P.B", "bool", B(FALSE)),
          L("F.PI", "int64", I(30)), L("F.PF", "float64", R(9, 2)),                       \* *int64, *float64 fields
          L("F.AI[0]", "int64", I(40)), L("F.AI[1]", "int64", I(41)), L("F.AF[1]", "float64", R(11, 2)), L("F.A8[0]", "int8", I(42)),
          L("F.AU[1]", "uint16", I(43)), L("F.AS[0]", "string", S("e")), L("F.AS[1]", "string", S("f")),
          L("F.MI[a]", "mapint64", I(50)), L("F.MI[b]", "mapint64", I(51)), L("F.MF[a]", "mapfloat64", R(13, 2)), L("F.MS[a]", "mapstring", S("m")),
          L("J.n", "json", R(60, 1)), L("J.s", "json", S("j")), L("J.b", "json", B(TRUE)), L("J.o.n", "json", R(61, 1)), L("J.a[1]", "json", R(62, 1)),
          L("F.AV[0]", "uint64", I(44)), L("F.AV[1]", "uint64", I(45)), L("F.MU[a]", "mapuint64", I(52)),
          L("F.T", "time", TM(1)), L("F.P.T", "time", TM(2)),
          L("N", "ctx", I(70)), L("Q", "ctx", R(15, 2)), L("T", "ctx", S("t")) }
Names == {l.n : l \in Locs}
KindOf == [n \in Names |-> (CHOOSE l \in Locs : l.n = n).k]
Store0 == [n \in Names |-> (CHOOSE l \in Locs : l.n = n).v]

Lo == [k \in IntKinds \cup UintKinds |-> CASE k = "int8" -> -128 [] k = "int16" -> -32768 [] k \in UintKinds -> 0 [] OTHER -> -1000000]
Hi == [k \in IntKinds \cup UintKinds |-> CASE k = "int8" -> 127 [] k = "int16" -> 32767 [] k = "uint8" -> 255 [] k = "uint16" -> 65535 [] OTHER -> 1000000]
Trunc(n, d) == IF n >= 0 THEN n \div d ELSE -((-n) \div d)       \* toward zero
\* what a location of kind k holds after v is assigned to it; Err when the engine refuses, Skip outside the property's domain
MapKinds == {"mapint64", "mapuint64", "mapfloat64", "mapstring"}
Convert(k, v) ==
  IF v \in {Err, Skip} THEN v
  ELSE IF k = "time" \/ v.t = "t" THEN (IF v.t = "t" /\ k \in {"time", "ctx"} THEN v ELSE Skip)
  ELSE IF k \in IntKinds \cup UintKinds THEN
       (IF ~IsNum(v) THEN Err                                      \* a string or boolean is refused by a numeric place
        ELSE LET n == IF v.t = "i" THEN v.n ELSE Trunc(v.n, v.d) IN
             IF n < Lo[k] \/ n > Hi[k] THEN Skip ELSE I(n))        \* values within the destination's range only
  ELSE IF k \in FloatKinds THEN (IF ~IsNum(v) THEN Err ELSE R(Num(v), Den(v)))
  \* a Go string / bool place takes nothing but a string / boolean: any other kind is refused with an error, nothing is stored
  \* (in particular an integer is NOT turned into the character it encodes)
  ELSE IF k = "string" THEN (IF v.t = "s" THEN v ELSE Err)
  ELSE IF k = "bool" THEN (IF v.t = "b" THEN v ELSE Err)
  ELSE IF k \in MapKinds THEN v      \* (the Go kind of the value is checked in Assign)
  ELSE v                                                                                        \* json member, context variable: the value as it is

FormOp == [set |-> "set", add |-> "add", sub |-> "sub", mul |-> "mul", div |-> "div"]
\* right-hand sides: constants and reads of other locations, optionally inside an arithmetic expression
Rhs == {[k |-> "c", v |-> I(3)], [k |-> "c", v |-> I(2)], [k |-> "c", v |-> R(3, 2)], [k |-> "c", v |-> S("x")], [k |-> "c", v |-> B(FALSE)]}
       \cup {[k |-> "r", n |-> n] : n \in {"F.I8", "F.U16", "F.F32", "F.F64", "F.I64", "F.P.I64", "F.AI[1]", "F.MI[b]", "J.n", "N", "Q", "F.S"}}
       \cup {[k |-> "x", n |-> n, op |-> o, c |-> I(2)] : n \in {"F.I64", "F.F64", "J.n", "N"}, o \in {"add", "mul", "div"}}
EvalRhs(r, st) == CASE r.k = "c" -> r.v
                    [] r.k = "r" -> st[r.n]
                    [] r.k = "x" -> Apply(r.op, st[r.n], r.c)

\* Go kind of what a location holds: fixed for struct fields, slice and map elements; the kind of the last value
\* stored for JSON members and context variables
GoKind0 == [n \in Names |-> LET k == KindOf[n] IN
              CASE k = "mapint64" -> "int64" [] k = "mapuint64" -> "uint64" [] k = "mapfloat64" -> "float64" [] k = "mapstring" -> "string"
                [] k \in {"json", "ctx"} -> (LET v == Store0[n] IN CASE v.t = "i" -> "int64" [] v.t = "r" -> "float64" [] v.t = "s" -> "string" [] v.t = "b" -> "bool")
                [] OTHER -> k]
TagKind(v) == CASE v.t = "i" -> "int64" [] v.t = "r" -> "float64" [] v.t = "s" -> "string" [] v.t = "b" -> "bool" [] v.t = "t" -> "time" [] OTHER -> "none"
\* Go kind of an arithmetic result (pkg/reflectmath.go): float64 if either side is a float, uint64 if both are unsigned, else int64
BaseKind(k) == IF k \in UintKinds THEN "uint64" ELSE IF k \in IntKinds THEN "int64" ELSE IF k \in FloatKinds THEN "float64" ELSE k
ArithKind(a, b) == IF "float64" \in {BaseKind(a), BaseKind(b)} THEN "float64"
                   ELSE IF BaseKind(a) = "uint64" /\ BaseKind(b) = "uint64" THEN "uint64" ELSE "int64"
SrcKind(r, v, gk) == IF r.k = "r" THEN gk[r.n] ELSE TagKind(v)        \* constants and arithmetic results are int64 / float64
ElemKind(k) == CASE k = "mapint64" -> "int64" [] k = "mapuint64" -> "uint64" [] k = "mapfloat64" -> "float64" [] k = "mapstring" -> "string"

\* one assignment on state s = [st, gk]: the new state, Err (the engine returns an error and the action list stops), or Skip
Assign(a, s) ==
  LET st == s.st
      v == EvalRhs(a.rhs, st)
      timed == a.form # "set" /\ (v \notin {Err, Skip} /\ "t" \in {v.t, st[a.t].t})         \* no arithmetic on points in time here
      combined == IF a.form = "set" THEN v ELSE IF timed THEN Skip ELSE Apply(a.form, st[a.t], v)
      new == Convert(KindOf[a.t], combined)
      k == KindOf[a.t]
      sk == SrcKind(a.rhs, v, s.gk)
      vk == IF a.form = "set" THEN sk
            ELSE IF combined \notin {Err, Skip} /\ IsNum(combined) /\ IsNum(st[a.t]) /\ IsNum(v)
                 THEN (IF a.form = "div" THEN "float64" ELSE ArithKind(s.gk[a.t], sk))            \* a quotient is always a float64
            ELSE TagKind(combined)
      numk == {"int64", "uint64", "float64"}
  IN IF new \in {Err, Skip} THEN new
     ELSE IF k \in MapKinds /\ vk # ElemKind(k)
          THEN (IF (BaseKind(vk) \in numk) /\ ElemKind(k) \in numk THEN Err ELSE Skip)   \* a map entry takes exactly its element type
     ELSE [st |-> [st EXCEPT ![a.t] = new], gk |-> IF k \in {"json", "ctx"} THEN [s.gk EXCEPT ![a.t] = vk] ELSE s.gk]

S0 == [st |-> Store0, gk |-> GoKind0]
Forms == {"set", "add", "sub", "mul", "div"}
Asg(t, f, r) == [t |-> t, form |-> f, rhs |-> r]
VARIABLE case
Single == \E t \in Names, f \in Forms, r \in Rhs :
            LET a == Asg(t, f, r)  s1 == Assign(a, S0) IN
            /\ s1 # Skip
            /\ case = [fam |-> "single", scale |-> 0, acts |-> <<a>>, want |-> IF s1 = Err THEN [err |-> TRUE, store |-> Store0] ELSE [err |-> FALSE, store |-> s1.st]]
\* the second right-hand side reads the first target (directly, compound, or inside an expression)
FirstTargets == {"F.I8", "F.I64", "F.U16", "F.F32", "F.F64", "F.P.I64", "F.AI[0]", "F.MI[a]", "J.n", "J.a[1]", "N", "Q"}
Pair == \E t1 \in FirstTargets, f1 \in {"set", "add", "mul"}, r1 \in {[k |-> "c", v |-> I(3)], [k |-> "c", v |-> R(3, 2)], [k |-> "r", n |-> "F.I16"]},
           t2 \in {"F.I64", "F.F64", "F.I8", "F.AI[1]", "F.MF[a]", "J.o.n", "N", "F.P.F64"} \cup FirstTargets, f2 \in {"set", "add", "sub"},
           shape \in {"r", "x"} :
            LET a1 == Asg(t1, f1, r1)
                a2 == Asg(t2, f2, IF shape = "r" THEN [k |-> "r", n |-> t1] ELSE [k |-> "x", n |-> t1, op |-> "add", c |-> I(2)])
                s1 == Assign(a1, S0)
                s2 == IF s1 \in {Err, Skip} THEN s1 ELSE Assign(a2, s1)
            IN /\ s1 \notin {Err, Skip} /\ s2 # Skip
               /\ case = [fam |-> "pair", scale |-> 0, acts |-> <<a1, a2>>,
                          want |-> IF s2 = Err THEN [err |-> TRUE, store |-> s1.st] ELSE [err |-> FALSE, store |-> s2.st]]   \* effects of completed actions stay
\* Values beyond 2^53: the same algebra on 64-bit integer places, every integer multiplied by M = 2^53 + 1 by the
\* harness (set, add and sub are linear, so the expected store is the model's store times M).
BigLocs == {"F.I64", "F.I", "F.U64", "F.U", "F.P.I64", "F.PI", "F.AI[0]", "F.AI[1]", "F.AV[0]", "F.AV[1]", "F.MI[a]", "F.MI[b]", "F.MU[a]", "N"}
BigRhs == {[k |-> "c", v |-> I(3)]} \cup {[k |-> "r", n |-> n] : n \in BigLocs \ {"F.PI"}}      \* (a bare *int64 is not a number source)
          \cup {[k |-> "x", n |-> n, op |-> o, c |-> I(2)] : n \in BigLocs, o \in {"add", "sub"}}
InBig(s) == \A n \in BigLocs : s.st[n].t = "i" /\ s.st[n].n >= -1000 /\ s.st[n].n <= 1000
Scaled == \E t1 \in BigLocs, f1 \in {"set", "add", "sub"}, r1 \in BigRhs :
            LET a == Asg(t1, f1, r1)  s1 == Assign(a, S0) IN
            /\ s1 # Skip /\ (s1 # Err => InBig(s1))
            /\ case = [fam |-> "scaled", scale |-> 1, acts |-> <<a>>, want |-> IF s1 = Err THEN [err |-> TRUE, store |-> Store0] ELSE [err |-> FALSE, store |-> s1.st]]
ScaledPair == \E t1 \in BigLocs \ {"F.PI"}, f1 \in {"set", "add", "sub"}, r1 \in {[k |-> "c", v |-> I(3)], [k |-> "r", n |-> "F.I64"], [k |-> "r", n |-> "F.U64"]},
                 t2 \in BigLocs, f2 \in {"set", "add"} :
            LET a1 == Asg(t1, f1, r1)
                a2 == Asg(t2, f2, [k |-> "r", n |-> t1])
                s1 == Assign(a1, S0)
                s2 == IF s1 \in {Err, Skip} THEN s1 ELSE Assign(a2, s1)
            IN /\ s1 \notin {Err, Skip} /\ s2 # Skip /\ InBig(s1) /\ (s2 # Err => InBig(s2))
               /\ case = [fam |-> "scaledpair", scale |-> 1, acts |-> <<a1, a2>>,
                          want |-> IF s2 = Err THEN [err |-> TRUE, store |-> s1.st] ELSE [err |-> FALSE, store |-> s2.st]]
\* Copy semantics: x takes the value of a, then a is overwritten, then y takes the value of x - x still holds what a
\* held before (no place is a view of another place), for every shape of x, a and y.
AX == {"N", "Q", "T", "F.I64", "F.P.I64", "J.n", "F.AI[0]", "F.MI[a]", "F.S", "F.F64", "F.P.T", "F.U64", "F.AS[1]"}
AA == {"F.I64", "F.P.I64", "F.AI[1]", "F.F64", "F.S", "F.P.S", "F.MI[b]", "J.n", "J.s", "F.I8", "F.AS[0]", "F.T", "N", "F.AV[0]"}
AY == {"F.I64", "F.F64", "F.S", "J.o.n", "F.P.I64", "F.T", "Q"}
Copy == \E x \in AX, a \in AA, f2 \in {"set", "add"}, y \in AY,
           r2 \in {[k |-> "c", v |-> I(3)], [k |-> "c", v |-> R(3, 2)], [k |-> "c", v |-> S("x")], [k |-> "r", n |-> "F.I16"], [k |-> "r", n |-> "F.P.S"], [k |-> "r", n |-> "F.P.T"]} :
            LET a1 == Asg(x, "set", [k |-> "r", n |-> a])
                a2 == Asg(a, f2, r2)
                a3 == Asg(y, "set", [k |-> "r", n |-> x])
                s1 == Assign(a1, S0)
                s2 == IF s1 \in {Err, Skip} THEN s1 ELSE Assign(a2, s1)
                s3 == IF s2 \in {Err, Skip} THEN s2 ELSE Assign(a3, s2)
            IN /\ s1 \notin {Err, Skip} /\ s2 \notin {Err, Skip} /\ s3 # Skip /\ y # a /\ x # a /\ y # x
               /\ case = [fam |-> "copy", scale |-> 0, acts |-> <<a1, a2, a3>>,
                          want |-> IF s3 = Err THEN [err |-> TRUE, store |-> s2.st] ELSE [err |-> FALSE, store |-> s3.st]]
\* The kind of a literal is part of its meaning: 3 and 3.0 in one rule, stored where the kind shows (map entries of an exact
\* element type, context variables, JSON members) and in numeric fields
KV == {"F.MI[a]", "F.MF[a]", "N", "Q", "J.n", "F.I64", "F.F64", "F.AI[0]", "F.P.F64"}
Kinds2 == \E t1 \in KV, t2 \in KV, intFirst \in BOOLEAN :
            LET c1 == IF intFirst THEN I(3) ELSE R(3, 1)
                c2 == IF intFirst THEN R(3, 1) ELSE I(3)
                a1 == Asg(t1, "set", [k |-> "c", v |-> c1])
                a2 == Asg(t2, "set", [k |-> "c", v |-> c2])
                s1 == Assign(a1, S0)
                s2 == IF s1 \in {Err, Skip} THEN s1 ELSE Assign(a2, s1)
            IN /\ t1 # t2 /\ s1 \notin {Err, Skip} /\ s2 # Skip
               /\ case = [fam |-> "kinds", scale |-> 0, acts |-> <<a1, a2>>,
                          want |-> IF s2 = Err THEN [err |-> TRUE, store |-> s1.st] ELSE [err |-> FALSE, store |-> s2.st]]
Init == Single \/ Pair \/ Scaled \/ ScaledPair \/ Copy \/ Kinds2
Next == UNCHANGED case
Spec == Init /\ [][Next]_case
\* frame condition of the model itself: at most the assigned locations differ from the initial store
Frame == \A n \in Names : case.want.store[n] # Store0[n] => \E i \in DOMAIN case.acts : case.acts[i].t = n
Export == PrintT("CASE " \o ToJson(case))
=============================================================================
