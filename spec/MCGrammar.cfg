SPECIFICATION Spec
CONSTANT BaseIds = {1, 2, 3}
INVARIANTS Export BasesValid
CHECK_DEADLOCK FALSE
