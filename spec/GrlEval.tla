------------------------------- MODULE GrlEval -------------------------------
(***************************************************************************)
(* Layer A semantics of the GRL core: from-scratch evaluation of an        *)
(* expression on a fact state, and the effect of an action list.           *)
(*                                                                         *)
(* Nothing here remembers anything: this is the contract the memoizing     *)
(* working memory of the implementation has to be indistinguishable from   *)
(* (C01, C02, C04, C13) and the meaning the conflict-resolution rules of   *)
(* GruleEngine.tla are stated over (C03, C06, C10, C11, C14, C15).          *)
(*                                                                         *)
(* Programs are the JSON ASTs the harness prints GRL from:                 *)
(*   expr  ::= [k:"c", t, v] | [k:"p", path] | [k:"bin", op, l, r]        *)
(*           | [k:"not", e] | [k:"call", recv, fn, args]                  *)
(*           | [k:"sel", base, i] | [k:"mem", base, m]   (of a call)      *)
(*           | [k:"now"]                                                  *)
(*   path  ::= << [n: name] | [x: expr, t: "i"|"s"] , ... >>              *)
(*   action::= [k:"asg", path, form, e] | [k:"setter", fn, e]             *)
(*           | [k:"retract", name] | [k:"complete"] | [k:"forget", name]  *)
(* A fact state is a function from location keys ("F.X", "F.Arr[0]",       *)
(* "F.M[a]", "N", ...) to values; a key that is absent means the access    *)
(* fails (nil pointer, index out of range, missing map key).               *)
(***************************************************************************)
EXTENDS Integers, Sequences, FiniteSets, TLC

Ok(v) == [ok |-> TRUE, v |-> v]
Err   == [ok |-> FALSE]

Abs(a) == IF a < 0 THEN -a ELSE a
\* Go's % truncates toward zero (the sign follows the dividend); b # 0
GoMod(a, b) == IF a >= 0 THEN a % Abs(b) ELSE -((-a) % Abs(b))

\* two's complement & and | on (small) integers of either sign
RECURSIVE BitAnd(_, _), BitOr(_, _)
BitAnd(a, b) == IF a = 0 \/ b = 0 THEN 0
                ELSE IF a = -1 THEN b
                ELSE IF b = -1 THEN a
                ELSE (a % 2) * (b % 2) + 2 * BitAnd(a \div 2, b \div 2)
BitOr(a, b) == IF a = 0 THEN b
               ELSE IF b = 0 THEN a
               ELSE IF a = -1 \/ b = -1 THEN -1
               ELSE (IF (a % 2) + (b % 2) > 0 THEN 1 ELSE 0) + 2 * BitOr(a \div 2, b \div 2)

Str(t, v) == IF t = "i" THEN ToString(v) ELSE v

\* what a fact method computes: pure functions of arguments and facts
CallFn(fn, recv, args, f) ==
  CASE fn = "GetX"  -> IF "F.X" \in DOMAIN f THEN Ok(f["F.X"]) ELSE Err
    [] fn = "GetPV" -> IF "F.P.V" \in DOMAIN f THEN Ok(f["F.P.V"]) ELSE Err
    [] fn = "Sum"   -> Ok(args[1] + args[2])
    [] fn = "Heavy" -> Ok(args[1] * 2)
    [] fn = "HeavyB" -> Ok(args[1] > 1)
    [] fn = "HeavyV" -> Ok(<<args[1] * 2, args[1] + 1>>)       \* a slice: rules read its elements
    [] fn = "HeavyP" -> Ok([V |-> args[1] * 3])                \* a struct pointer: rules read its member V
    [] fn = "IsPos" -> Ok(args[1] > 0)
    [] fn = "Fresh" -> Ok(args[1] = 1)                         \* is this instant one of the present call?
    [] fn = "Risky" -> IF args[1] = 13 THEN Err ELSE Ok(args[1])
    [] fn = "Len"   -> IF recv.ok THEN Ok(Len(recv.v)) ELSE Err
    [] OTHER        -> Err

RECURSIVE Eval(_, _), KeyOf(_, _, _, _), EvalArgs(_, _, _, _)

\* the location an access path denotes on facts f (selectors are evaluated on f)
KeyOf(steps, i, acc, f) ==
  IF i > Len(steps) THEN Ok(acc)
  ELSE LET s == steps[i] IN
       IF "n" \in DOMAIN s
       THEN KeyOf(steps, i + 1, IF i = 1 THEN s.n ELSE acc \o "." \o s.n, f)
       ELSE LET v == Eval(s.x, f) IN
            IF ~v.ok THEN Err ELSE KeyOf(steps, i + 1, acc \o "[" \o Str(s.t, v.v) \o "]", f)

Read(steps, f) ==
  LET k == KeyOf(steps, 1, "", f) IN
  IF ~k.ok THEN Err ELSE IF k.v \in DOMAIN f THEN Ok(f[k.v]) ELSE Err

\* arguments left to right, the first failure wins
EvalArgs(args, i, acc, f) ==
  IF i > Len(args) THEN Ok(acc)
  ELSE LET v == Eval(args[i], f) IN
       IF ~v.ok THEN Err ELSE EvalArgs(args, i + 1, Append(acc, v.v), f)

BinOp(op, a, b) ==
  CASE op = "add"  -> Ok(a + b)
    [] op = "sub"  -> Ok(a - b)
    [] op = "mul"  -> Ok(a * b)
    [] op = "mod"  -> IF b = 0 THEN Err ELSE Ok(GoMod(a, b))
    [] op = "band" -> Ok(BitAnd(a, b))
    [] op = "bor"  -> Ok(BitOr(a, b))
    [] op = "cat"  -> Ok(a \o b)
    [] op = "eq"   -> Ok(a = b)
    [] op = "ne"   -> Ok(a # b)
    [] op = "lt"   -> Ok(a < b)
    [] op = "le"   -> Ok(a <= b)
    [] op = "gt"   -> Ok(a > b)
    [] op = "ge"   -> Ok(a >= b)
    [] OTHER       -> Err

Eval(e, f) ==
  CASE e.k = "c"   -> Ok(e.v)
    [] e.k = "p"   -> Read(e.path, f)
    \* Now(): the one expression that is not a function of the facts. The abstract clock counts calls backwards from the
    \* present one: an instant read during the present call is 1, whatever was read during an earlier call is 2 (the harness
    \* projects real instants the same way), so from-scratch evaluation - which is what every call owes - always yields 1.
    [] e.k = "now" -> Ok(1)
    [] e.k = "not" -> LET v == Eval(e.e, f) IN IF v.ok THEN Ok(~v.v) ELSE Err
    [] e.k = "call" ->
         LET recv == IF e.fn = "Len" THEN Read(e.recv, f) ELSE Err
             args == EvalArgs(e.args, 1, <<>>, f)
         IN IF ~args.ok THEN Err ELSE CallFn(e.fn, recv, args.v, f)
    \* an element / a member of what a call yields: F.HeavyV(x)[i], F.HeavyP(x).V (the call first, then the selector)
    [] e.k = "sel" ->
         LET b == Eval(e.base, f) IN
         IF ~b.ok THEN Err
         ELSE LET i == Eval(e.i, f) IN
              IF ~i.ok THEN Err ELSE IF i.v + 1 \in DOMAIN b.v THEN Ok(b.v[i.v + 1]) ELSE Err
    [] e.k = "mem" ->
         LET b == Eval(e.base, f) IN
         IF ~b.ok THEN Err ELSE IF e.m \in DOMAIN b.v THEN Ok(b.v[e.m]) ELSE Err
    [] e.k = "bin" ->
         IF e.op = "and" THEN
            LET a == Eval(e.l, f) IN
            IF ~a.ok THEN Err ELSE IF ~a.v THEN Ok(FALSE) ELSE Eval(e.r, f)
         ELSE IF e.op = "or" THEN
            LET a == Eval(e.l, f) IN
            IF ~a.ok THEN Err ELSE IF a.v THEN Ok(TRUE) ELSE Eval(e.r, f)
         ELSE
            LET a == Eval(e.l, f) b == Eval(e.r, f) IN
            IF ~a.ok \/ ~b.ok THEN Err ELSE BinOp(e.op, a.v, b.v)

Combine(form, old, new) ==
  CASE form = "set" -> new
    [] form = "add" -> old + new
    [] form = "sub" -> old - new
    [] form = "mul" -> old * new
    [] form = "cat" -> old \o new

SetterKey(fn) == CASE fn = "SetX" -> "F.X" [] fn = "SetY" -> "F.Y" [] fn = "Mark" -> "F.Once"

\* One action on the state s = [f, ret, comp, err] threaded through an action list
Step(a, s) ==
  CASE a.k = "asg" ->
         LET v == Eval(a.e, s.f)
             k == KeyOf(a.path, 1, "", s.f)
         IN IF ~v.ok \/ ~k.ok THEN [s EXCEPT !.err = TRUE]
            ELSE IF k.v \notin DOMAIN s.f THEN [s EXCEPT !.err = TRUE]
            ELSE [s EXCEPT !.f[k.v] = Combine(a.form, s.f[k.v], v.v)]
    [] a.k = "setter" ->
         LET v == Eval(a.e, s.f) IN
         IF ~v.ok THEN [s EXCEPT !.err = TRUE]
         ELSE IF a.fn = "SetRisky" THEN (IF v.v = 13 THEN [s EXCEPT !.err = TRUE] ELSE [s EXCEPT !.f["F.Y"] = v.v])   \* panics on 13
         ELSE IF a.fn = "Mark" THEN [s EXCEPT !.f["F.Once"] = s.f["F.Once"] * 10 + v.v]   \* records order and number of runs
         ELSE IF a.fn = "Stamp" THEN [s EXCEPT !.f["F.St"] = s.f["F.St"] * 10 + v.v]      \* ... and the epoch of each instant
         ELSE [s EXCEPT !.f[SetterKey(a.fn)] = v.v]
    [] a.k = "repoint" ->   \* F.P = F.Spare: the paths below F.P now denote the spare object (V = 7, S = "sp" when first reached)
         IF s.f["F.P@"] = 1 THEN s
         ELSE [s EXCEPT !.f = [k \in DOMAIN s.f \cup {"F.P.V", "F.P.S"} |->
                                 IF k = "F.P.V" THEN 7 ELSE IF k = "F.P.S" THEN "sp" ELSE IF k = "F.P@" THEN 1 ELSE s.f[k]]]
    [] a.k = "retract"  -> [s EXCEPT !.ret = s.ret \cup {a.name}]
    [] a.k = "complete" -> [s EXCEPT !.comp = TRUE]
    [] a.k = "forget"   -> s          \* layer A remembers nothing, so there is nothing to forget

\* Actions in textual order, each on the facts left by the previous one; the first failing action stops
\* the list and the effects of the completed ones stay (C04, C14).
RECURSIVE RunActions(_, _, _)
RunActions(acts, i, s) ==
  IF i > Len(acts) \/ s.err THEN s ELSE RunActions(acts, i + 1, Step(acts[i], s))

\* condition of a rule on facts f: TRUE only when it evaluates, to true
Holds(rule, f) == LET v == Eval(rule.w, f) IN v.ok /\ v.v
Fails(rule, f) == ~Eval(rule.w, f).ok
=============================================================================
