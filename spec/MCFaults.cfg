SPECIFICATION Spec
CONSTANTS
  Offsets = {0, 1, 2, 3, 4, 5, 6, 7, 8, 9, 10, 11, 12, 13, 14, 15, 16, 17, 18, 19, 20, 21, 22, 23, 24, 25, 26, 27, 28, 29, 30, 31, 32, 33, 34, 35, 36, 37, 38, 39, 40, 45, 50, 55, 60, 65, 70, 75, 80, 90, 100, 110, 120, 130, 140, 150, 175, 200, 250, 300, 400, 500}
  FlipOffsets = {0, 1, 7, 8, 9, 15, 16, 24, 40, 41, 48, 64, 100, 200}
  CutFractions = {0, 1, 2, 3, 5, 7, 9}
  TextCuts = {0, 1, 2, 3, 4, 5, 6, 7, 8, 9}
INVARIANT Export
CHECK_DEADLOCK FALSE
