SPECIFICATION Spec
CONSTANTS
  Family = "strlit"
  IntLeaves = {}
  BoolLeaves = {}
  OtherLeaves = {}
INVARIANTS Export
CHECK_DEADLOCK FALSE
