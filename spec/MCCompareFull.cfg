SPECIFICATION Spec
CONSTANT BothWrapped = TRUE
INVARIANT Export
CHECK_DEADLOCK FALSE
