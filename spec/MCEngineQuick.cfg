SPECIFICATION Spec
CONSTANTS
  Programs <- MCProgramsQuick
  FactStates <- MCFacts
  MaxCycles = {0, 1, 2}
  Flags = {TRUE, FALSE}
  CanCancel = TRUE
VIEW view
INVARIANTS TypeOK QuiescentAtNil WithinBudget MaxIsJustified CompleteEnds ErrorsNamed
PROPERTIES FiresOnlyTrue FiresMaxSalience RetractedStaysOut NoFireAfterCancel
CHECK_DEADLOCK FALSE
