----------------------------- MODULE GruleEngine -----------------------------
(***************************************************************************)
(* Layer A: the engine's contract as a transition system.                  *)
(*                                                                         *)
(* One Execute / ExecuteWithContext call on a knowledge-base instance:     *)
(* cycles, conflict set, salience, fire, retract, complete, cycle budget,  *)
(* evaluation and action failures, cancellation.  Conditions are evaluated *)
(* from scratch (GrlEval!Eval); the order in which the rules of a cycle    *)
(* are evaluated is nondeterministic (Go map iteration order).             *)
(*                                                                         *)
(* Each action is Guard /\ Effect; TraceEngine.tla checks recorded runs of *)
(* the real engine against the same guards.                                *)
(***************************************************************************)
EXTENDS GrlEval

CONSTANTS Programs,     \* set of rule sets: each a function  name -> [sal, w, a, del]
          FactStates,   \* set of initial fact states
          MaxCycles,    \* set of MaxCycle values
          Flags,        \* set of values of ReturnErrOnFailedRuleEvaluation
          CanCancel     \* whether the environment may cancel the context

VARIABLES prog, facts, maxc, flag,
          retracted, complete, cancelled,
          cyc,          \* number of rules fired so far
          evald, cands, \* this cycle: rules evaluated / reported as candidates
          phase,        \* "eval" | "done"
          result,       \* "" while running, then nil | max | evalerr | acterr | ctx
          errRule,
          log           \* history variable: sequence of <<"fire", rule, factsBefore>> (hidden by VIEW)

vars == <<prog, facts, maxc, flag, retracted, complete, cancelled, cyc, evald, cands, phase, result, errRule, log>>
view == <<prog, facts, maxc, flag, retracted, complete, cancelled, cyc, evald, cands, phase, result, errRule>>

Names  == DOMAIN prog
Live   == {r \in Names : ~prog[r].del}
Active == Live \ retracted
Truth(r)  == Holds(prog[r], facts)
Broken(r) == Fails(prog[r], facts)
MaxSal(S) == {r \in S : \A c \in S : prog[c].sal <= prog[r].sal}

Init == /\ prog \in Programs /\ facts \in FactStates /\ maxc \in MaxCycles /\ flag \in Flags
        /\ retracted = {} /\ complete = FALSE /\ cancelled = FALSE /\ cyc = 0
        /\ evald = {} /\ cands = {} /\ phase = "eval" /\ result = "" /\ errRule = "" /\ log = <<>>

Finish(res, r) == phase' = "done" /\ result' = res /\ errRule' = r

\* -- evaluation of one not yet evaluated active rule --------------------------------------------------
EvalGuard(r) == phase = "eval" /\ ~cancelled /\ r \in Active /\ r \notin evald
EvalRule(r) ==
  /\ EvalGuard(r)
  /\ IF Broken(r) /\ flag
     THEN /\ Finish("evalerr", r) /\ UNCHANGED <<evald, cands>>
     ELSE /\ evald' = evald \cup {r}
          /\ cands' = IF Truth(r) THEN cands \cup {r} ELSE cands
          /\ UNCHANGED <<phase, result, errRule>>
  /\ UNCHANGED <<prog, facts, maxc, flag, retracted, complete, cancelled, cyc, log>>

\* -- conflict resolution and firing ------------------------------------------------------------------
FireGuard(r) == /\ phase = "eval" /\ ~cancelled
                /\ evald = Active            \* every active rule was evaluated in this cycle
                /\ r \in MaxSal(cands)       \* a candidate of maximal salience
                /\ cyc < maxc                \* budget
Fire(r) ==
  /\ FireGuard(r)
  /\ LET s == RunActions(prog[r].a, 1, [f |-> facts, ret |-> retracted, comp |-> complete, err |-> FALSE]) IN
     /\ facts' = s.f /\ retracted' = s.ret /\ complete' = s.comp
     /\ log' = Append(log, <<"fire", r, facts>>)
     /\ cyc' = cyc + 1 /\ evald' = {} /\ cands' = {}
     /\ IF s.err THEN Finish("acterr", r)
        ELSE IF s.comp THEN Finish("nil", "")
        ELSE UNCHANGED <<phase, result, errRule>>
  /\ UNCHANGED <<prog, maxc, flag, cancelled>>

ReturnQuiescent == /\ phase = "eval" /\ ~cancelled /\ evald = Active /\ cands = {}
                   /\ Finish("nil", "")
                   /\ UNCHANGED <<prog, facts, maxc, flag, retracted, complete, cancelled, cyc, evald, cands, log>>
ReturnMaxCycle ==  /\ phase = "eval" /\ ~cancelled /\ evald = Active /\ cands # {} /\ cyc = maxc
                   /\ Finish("max", "")
                   /\ UNCHANGED <<prog, facts, maxc, flag, retracted, complete, cancelled, cyc, evald, cands, log>>

\* -- cancellation: the environment may cancel at any control point; nothing fires afterwards ------------
Cancel == /\ CanCancel /\ phase = "eval" /\ ~cancelled /\ cancelled' = TRUE
          /\ UNCHANGED <<prog, facts, maxc, flag, retracted, complete, cyc, evald, cands, phase, result, errRule, log>>
ReturnCancelled == /\ phase = "eval" /\ cancelled
                   /\ Finish("ctx", "")
                   /\ UNCHANGED <<prog, facts, maxc, flag, retracted, complete, cancelled, cyc, evald, cands, log>>

Next == \/ \E r \in Names : EvalRule(r) \/ Fire(r)
        \/ ReturnQuiescent \/ ReturnMaxCycle \/ Cancel \/ ReturnCancelled
Spec == Init /\ [][Next]_vars
FairSpec == Spec /\ WF_vars(Next)

\* ---------------------------------------------------------------------------------------------------------
\* Properties (the listed engine properties, at the level of the contract)
\* C01: only an active rule whose condition holds now is ever fired
FiresOnlyTrue == [][\A r \in Names : (cyc' = cyc + 1 /\ log' # log /\ log'[Len(log')][2] = r)
                       => (r \in Active /\ Truth(r))]_vars
\* C02: a nil return without Complete means no active rule is satisfied
QuiescentAtNil == (result = "nil" /\ ~complete) => ~\E r \in Active : Truth(r)
\* C03: the fired rule has maximal salience among the satisfied active rules
FiresMaxSalience == [][\A r \in Names : (log' # log /\ log'[Len(log')][2] = r)
                       => \A c \in Active : Truth(c) => prog[c].sal <= prog[r].sal]_vars
\* C06: budget and faithful cycle-limit error
WithinBudget == cyc <= maxc
MaxIsJustified == result = "max" => (cyc = maxc /\ \E r \in Active : Truth(r))
\* C10: a retracted rule is never evaluated or fired again; Complete ends the run
RetractedStaysOut == [][\A r \in retracted : r \notin evald' /\ (log' # log => log'[Len(log')][2] # r)]_vars
CompleteEnds == complete => phase = "done"
\* C14: failures are reported, name an active rule, and stop the run
ErrorsNamed == /\ result = "evalerr" => (flag /\ errRule \in Active /\ Broken(errRule))
               /\ result = "acterr" => errRule \in Names
\* C15: nothing fires after cancellation
NoFireAfterCancel == [][cancelled => (log' = log /\ facts' = facts)]_vars
\* C06: every run returns
Terminates == <>(phase = "done")

TypeOK == /\ phase \in {"eval", "done"} /\ result \in {"", "nil", "max", "evalerr", "acterr", "ctx"}
          /\ evald \subseteq Names /\ cands \subseteq evald /\ retracted \subseteq STRING
=============================================================================
