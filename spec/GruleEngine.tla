----------------------------- MODULE GruleEngine -----------------------------
(***************************************************************************)
(* Layer A with the real expression semantics: GruleEngineCore (the engine *)
(* contract: sessions of Execute / FetchMatchingRules calls on one         *)
(* instance) instantiated with Holds / Fails / RunActions of GrlEval.      *)
(***************************************************************************)
EXTENDS GrlEval

CONSTANTS Programs,     \* set of rule sets: each a function  name -> [sal, w, a, del]
          FactStates,   \* set of initial fact states
          MaxCycles,    \* set of MaxCycle values
          Flags,        \* set of values of ReturnErrOnFailedRuleEvaluation
          CanCancel,    \* whether the environment may cancel the context
          Modes,        \* kinds of call: subset of {"exec", "fetch"}
          MaxCalls      \* calls per session on the one instance

VARIABLES prog, facts, maxc, flag,
          retracted, complete, cancelled,
          cyc,          \* number of rules fired so far
          evald, cands, \* this cycle: rules evaluated / reported as candidates
          phase,        \* "eval" | "done"
          result,       \* "" while running, then nil | max | evalerr | acterr | ctx
          errRule,
          mode,         \* kind of the current call
          calls,        \* number of calls started so far
          matched,      \* result of a FetchMatchingRules call
          log           \* history variable: sequence of <<"fire", rule, factsBefore>> (hidden by VIEW)


INSTANCE GruleEngineCore
=============================================================================
