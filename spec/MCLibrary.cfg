SPECIFICATION Spec
CONSTANTS
  Kbs = {"k1"}
  RuleNames = {"A", "B"}
  Texts = {1, 2}
  MaxInst = 2
  Depth = 4
  Ops = {"build", "build2", "badsyntax", "badliteral", "rmlib", "rmkb", "rminst", "inst", "store", "load"}
INVARIANT Export
PROPERTIES OtherKbsUntouched InstancesIsolated RemovedStaysRemoved RejectedBuildHarmless DupKeepsExisting
CHECK_DEADLOCK FALSE
