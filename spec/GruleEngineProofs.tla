------------------------- MODULE GruleEngineProofs -------------------------
(***************************************************************************)
(* Deductive (unbounded) part.  The budget and bookkeeping invariants of   *)
(* the engine contract hold for EVERY rule set, fact state, MaxCycle value *)
(* and number of calls: proved with TLAPS from the action definitions of   *)
(* GruleEngineCore alone - the expression / action semantics (Holds,       *)
(* Fails, RunActions) stays an uninterpreted parameter.                    *)
(* TLC checks the same statements exhaustively on the bounded instance.    *)
(***************************************************************************)
EXTENDS GruleEngineCore, TLAPS

ASSUME MaxCyclesNat == MaxCycles \subseteq Nat

BudgetInv == /\ maxc \in Nat /\ cyc \in Nat /\ cyc <= maxc
             /\ cands \subseteq evald
             /\ phase \in {"eval", "done"}
             /\ (result = "max" => cyc = maxc)
             /\ (result # "" => phase = "done")

LEMMA InitBudget == Init => BudgetInv
  BY MaxCyclesNat DEF Init, BudgetInv

LEMMA NextBudget == BudgetInv /\ [Next]_vars => BudgetInv'
<1> SUFFICES ASSUME BudgetInv, [Next]_vars PROVE BudgetInv'
  OBVIOUS
<1>1. ASSUME NEW r \in Names, EvalRule(r) PROVE BudgetInv'
  BY <1>1 DEF EvalRule, EvalGuard, Finish, BudgetInv
<1>2. ASSUME NEW r \in Names, Fire(r) PROVE BudgetInv'
  BY <1>2 DEF Fire, FireGuard, Finish, BudgetInv
<1>3. CASE ReturnQuiescent
  BY <1>3 DEF ReturnQuiescent, Finish, BudgetInv
<1>4. CASE ReturnMaxCycle
  BY <1>4 DEF ReturnMaxCycle, Finish, BudgetInv
<1>5. CASE Cancel
  BY <1>5 DEF Cancel, BudgetInv
<1>6. CASE ReturnCancelled
  BY <1>6 DEF ReturnCancelled, Finish, BudgetInv
<1>7. CASE ReturnFetch
  BY <1>7 DEF ReturnFetch, Finish, BudgetInv
<1>8. ASSUME NEW m \in Modes, NextCall(m) PROVE BudgetInv'
  BY <1>8 DEF NextCall, BudgetInv
<1>9. CASE UNCHANGED vars
  BY <1>9 DEF vars, BudgetInv
<1> QED
  BY <1>1, <1>2, <1>3, <1>4, <1>5, <1>6, <1>7, <1>8, <1>9 DEF Next

THEOREM BudgetAlways == Spec => []BudgetInv
  BY InitBudget, NextBudget, PTL DEF Spec

\* C06: never more than MaxCycle firings in a call, whatever the rule set
THEOREM WithinBudgetAlways == Spec => []WithinBudget
<1>1. BudgetInv => WithinBudget
  BY DEF BudgetInv, WithinBudget
<1> QED
  BY <1>1, BudgetAlways, PTL

\* ---- the conflict set is exact: what has been reported as candidate in this cycle is what holds on the current facts ----
CandsInv == /\ \A r \in evald : (r \in cands <=> Truth(r))
            /\ evald \subseteq Active
            /\ cands \subseteq evald

LEMMA InitCands == Init => CandsInv
  BY DEF Init, CandsInv

LEMMA NextCands == CandsInv /\ [Next]_vars => CandsInv'
<1> SUFFICES ASSUME CandsInv, [Next]_vars PROVE CandsInv'
  OBVIOUS
<1>1. ASSUME NEW r \in Names, EvalRule(r) PROVE CandsInv'
  BY <1>1 DEF EvalRule, EvalGuard, Finish, CandsInv, Truth, Active, Live, Names
<1>2. ASSUME NEW r \in Names, Fire(r) PROVE CandsInv'
  BY <1>2 DEF Fire, CandsInv
<1>3. CASE ReturnQuiescent
  BY <1>3 DEF ReturnQuiescent, Finish, CandsInv, Truth, Active, Live, Names
<1>4. CASE ReturnMaxCycle
  BY <1>4 DEF ReturnMaxCycle, Finish, CandsInv, Truth, Active, Live, Names
<1>5. CASE Cancel
  BY <1>5 DEF Cancel, CandsInv, Truth, Active, Live, Names
<1>6. CASE ReturnCancelled
  BY <1>6 DEF ReturnCancelled, Finish, CandsInv, Truth, Active, Live, Names
<1>7. CASE ReturnFetch
  BY <1>7 DEF ReturnFetch, Finish, CandsInv, Truth, Active, Live, Names
<1>8. ASSUME NEW m \in Modes, NextCall(m) PROVE CandsInv'
  BY <1>8 DEF NextCall, CandsInv
<1>9. CASE UNCHANGED vars
  BY <1>9 DEF vars, CandsInv, Truth, Active, Live, Names
<1> QED
  BY <1>1, <1>2, <1>3, <1>4, <1>5, <1>6, <1>7, <1>8, <1>9 DEF Next

THEOREM CandsAlways == Spec => []CandsInv
  BY InitCands, NextCands, PTL DEF Spec

\* C01 + C03: whenever a rule fires it is active, its condition holds on the current facts, and no active rule whose condition
\* holds has a higher salience - for every rule set and every evaluation order
FireSound(r) == /\ r \in Active /\ Truth(r)
                /\ \A c \in Active : Truth(c) => prog[c].sal <= prog[r].sal
LEMMA FireIsSound == ASSUME CandsInv, NEW r \in Names, FireGuard(r) PROVE FireSound(r)
  BY DEF CandsInv, FireGuard, FireSound, MaxSal

\* C02: a call that ends at quiescence leaves no active rule satisfied
LEMMA QuiescenceIsReal == ASSUME CandsInv, ReturnQuiescent PROVE ~\E r \in Active : Truth(r)
  BY DEF CandsInv, ReturnQuiescent

\* C06: the cycle-limit error is returned only when one more firing would be needed
LEMMA MaxIsNeeded == ASSUME CandsInv, ReturnMaxCycle PROVE cyc = maxc /\ \E r \in Active : Truth(r)
  BY DEF CandsInv, ReturnMaxCycle

\* C11: what a fetch returns is exactly the set of satisfied live rules
LEMMA FetchIsExact == ASSUME CandsInv, ReturnFetch, retracted = {} PROVE cands = {r \in Live : Truth(r)}
  BY DEF CandsInv, ReturnFetch, Active


\* C15: once the context is cancelled no rule fires and no fact changes (as a step property)
LEMMA CancelledIsQuiet == ASSUME cancelled, [Next]_vars PROVE log' = log /\ facts' = facts
<1>1. ASSUME NEW r \in Names, EvalRule(r) PROVE log' = log /\ facts' = facts
  BY <1>1 DEF EvalRule
<1>2. ASSUME NEW r \in Names, Fire(r) PROVE FALSE
  BY <1>2 DEF Fire, FireGuard
<1>3. CASE ReturnQuiescent \/ ReturnMaxCycle \/ Cancel \/ ReturnCancelled \/ ReturnFetch
  BY <1>3 DEF ReturnQuiescent, ReturnMaxCycle, Cancel, ReturnCancelled, ReturnFetch
<1>4. ASSUME NEW m \in Modes, NextCall(m) PROVE log' = log /\ facts' = facts
  BY <1>4 DEF NextCall
<1>5. CASE UNCHANGED vars
  BY <1>5 DEF vars
<1> QED
  BY <1>1, <1>2, <1>3, <1>4, <1>5 DEF Next

\* C08: only NextCall starts a call, and it starts afresh
LEMMA CallsStartAfresh == ASSUME [Next]_vars, phase = "done", phase' = "eval"
                          PROVE retracted' = {} /\ ~complete' /\ ~cancelled' /\ cyc' = 0 /\ evald' = {} /\ facts' = facts
<1>1. ASSUME NEW r \in Names, EvalRule(r) \/ Fire(r) PROVE FALSE
  BY <1>1 DEF EvalRule, EvalGuard, Fire, FireGuard
<1>2. CASE ReturnQuiescent \/ ReturnMaxCycle \/ Cancel \/ ReturnCancelled \/ ReturnFetch
  BY <1>2 DEF ReturnQuiescent, ReturnMaxCycle, Cancel, ReturnCancelled, ReturnFetch
<1>3. ASSUME NEW m \in Modes, NextCall(m) PROVE retracted' = {} /\ ~complete' /\ ~cancelled' /\ cyc' = 0 /\ evald' = {} /\ facts' = facts
  BY <1>3 DEF NextCall
<1>4. CASE UNCHANGED vars
  BY <1>4 DEF vars
<1> QED
  BY <1>1, <1>2, <1>3, <1>4 DEF Next
=============================================================================
