SPECIFICATION Spec
CONSTANT Depth = 3
INVARIANT Export
CHECK_DEADLOCK FALSE
