SPECIFICATION Spec
CONSTANTS
  Family = "tree"
  IntLeaves = {2, 3}
  BoolLeaves = {TRUE, FALSE}
  OtherLeaves <- StrLeaves
INVARIANTS Export
CHECK_DEADLOCK FALSE
