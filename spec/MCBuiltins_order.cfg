SPECIFICATION Spec
CONSTANTS
  Alpha = {97, 98, 65, 32}
  MaxLen = 3
  Group = "order"
INVARIANT Export
CHECK_DEADLOCK FALSE
