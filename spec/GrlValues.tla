------------------------------ MODULE GrlValues ------------------------------
(***************************************************************************)
(* Values of the GRL comparison operators (C19): exact values of the       *)
(* numeric family named symbolically and ordered by rank (TLC integers are *)
(* 32 bit; 2^53 and 2^63-1 are boundary values the property asks for), the *)
(* kinds that can hold each of them exactly, strings, booleans, instants.  *)
(* Cmp is the one comparison every operator must agree with; the model     *)
(* enumerates the whole finite domain (every ordered pair of forms, every  *)
(* pair of values) and exports the six expected outcomes per pair.         *)
(***************************************************************************)
EXTENDS Integers, Sequences, FiniteSets, TLC, Json

\* numeric boundary values in strictly increasing order (the harness checks its own table against this order)
Num == << "-2^63", "-2^53", "-2^31-1", "-2^31", "-32769", "-32768", "-129", "-128", "-3/2", "-1", "-1/2", "0",
          "1/2", "1", "3/2", "127", "128", "255", "256", "32767", "32768", "65535", "65536",
          "2^31-1", "2^31", "2^32-1", "2^32", "2^53", "2^63-1" >>
Rank(seq, v) == CHOOSE i \in DOMAIN seq : seq[i] = v
Range(seq) == {seq[i] : i \in DOMAIN seq}
Between(lo, hi) == {Num[i] : i \in Rank(Num, lo)..Rank(Num, hi)}
Fractions == {"-3/2", "-1/2", "1/2", "3/2"}
Ints == Range(Num) \ Fractions

I8 == Between("-128", "127") \ Fractions
I16 == Between("-32768", "32767") \ Fractions
I32 == Between("-2^31", "2^31-1") \ Fractions
I64 == Ints
U8 == Between("0", "255") \ Fractions
U16 == Between("0", "65535") \ Fractions
U32 == Between("0", "2^32-1") \ Fractions
U64 == Between("0", "2^63-1") \ Fractions
F64 == Range(Num) \ {"2^63-1"}                       \* 53 bit mantissa
F32 == F64 \ {"-2^31-1", "2^31-1", "2^32-1"}       \* 24 bit mantissa

Holds(kind) == CASE kind = "int8" -> I8 [] kind = "int16" -> I16 [] kind = "int32" -> I32 [] kind \in {"int64", "int"} -> I64
                 [] kind = "uint8" -> U8 [] kind = "uint16" -> U16 [] kind = "uint32" -> U32 [] kind \in {"uint64", "uint"} -> U64
                 [] kind = "float32" -> F32 [] kind = "float64" -> F64
NumKinds == {"int8", "int16", "int32", "int64", "int", "uint8", "uint16", "uint32", "uint64", "uint", "float32", "float64"}
IsFloat(k) == k \in {"float32", "float64"}
Wraps == {"plain", "ptr", "iface"}      \* the operand itself, behind a pointer, inside an interface

Str == << "", "A", "a", "ab", "b" >>    \* Go compares strings bytewise
Bool == << FALSE, TRUE >>
Instants == << "t0", "t1", "t2" >>
TimeForms == {"utc", "zone", "mono", "monozone"}   \* same instant: location and monotonic reading must not matter

\* the one comparison: -1, 0, 1
CmpRank(a, b) == IF a < b THEN -1 ELSE IF a = b THEN 0 ELSE 1
Six(c) == [lt |-> c < 0, eq |-> c = 0, gt |-> c > 0, le |-> c <= 0, ge |-> c >= 0, ne |-> c # 0]

\* laws the six outcomes satisfy by construction (checked by TLC as an ASSUME over all c)
ASSUME \A c \in {-1, 0, 1} : LET s == Six(c) IN
         /\ Cardinality({x \in {"lt", "eq", "gt"} : s[x]}) = 1
         /\ s.le = (s.lt \/ s.eq) /\ s.ge = (s.gt \/ s.eq) /\ s.ne = ~s.eq
         /\ Six(-c).lt = s.gt /\ Six(-c).gt = s.lt /\ Six(-c).eq = s.eq

CONSTANT BothWrapped       \* thorough tier: every combination of plain / pointer / interface on BOTH sides
VARIABLE case
\* a numeric pair is in the domain when both kinds hold their value exactly, and - if a float is involved -
\* the integer side is exactly representable as a float64 too
NumCase(lk, lw, lv, rk, rw, rv) == [fam |-> "num", lk |-> lk, lw |-> lw, lv |-> lv, rk |-> rk, rw |-> rw, rv |-> rv]
NumInit == \E lk \in NumKinds, rk \in NumKinds, lw \in Wraps, rw \in Wraps :
             /\ (BothWrapped \/ lw = "plain" \/ rw = "plain")        \* quick tier: one wrapped side at a time keeps the space at ~10^5
             /\ \E lv \in Holds(lk), rv \in Holds(rk) :
                  /\ (IsFloat(lk) \/ IsFloat(rk)) => (lv \in F64 /\ rv \in F64)
                  /\ case = NumCase(lk, lw, lv, rk, rw, rv)
StrCases == { [fam |-> "str", lw |-> lw, lv |-> lv, rw |-> rw, rv |-> rv] : lw \in Wraps, rw \in Wraps, lv \in Range(Str), rv \in Range(Str) }
BoolCases == { [fam |-> "bool", lw |-> lw, lv |-> lv, rw |-> rw, rv |-> rv] : lw \in Wraps, rw \in Wraps, lv \in {"false", "true"}, rv \in {"false", "true"} }
TimeCases == { [fam |-> "time", lf |-> lf, lv |-> lv, rf |-> rf, rv |-> rv, lw |-> lw, rw |-> rw] :
                 lf \in TimeForms, rf \in TimeForms, lv \in Range(Instants), rv \in Range(Instants), lw \in {"plain", "ptr"}, rw \in {"plain", "iface"} }

Expected(c) == CASE c.fam = "num"  -> Six(CmpRank(Rank(Num, c.lv), Rank(Num, c.rv)))
                 [] c.fam = "str"  -> Six(CmpRank(Rank(Str, c.lv), Rank(Str, c.rv)))
                 [] c.fam = "time" -> Six(CmpRank(Rank(Instants, c.lv), Rank(Instants, c.rv)))
                 [] c.fam = "bool" -> [eq |-> c.lv = c.rv, ne |-> c.lv # c.rv]      \* not an ordered family

Init == NumInit \/ case \in StrCases \cup BoolCases \cup TimeCases
Next == UNCHANGED case
Spec == Init /\ [][Next]_case
Export == PrintT("CASE " \o ToJson([c |-> case, want |-> Expected(case),
                                     lrank |-> IF case.fam = "num" THEN Rank(Num, case.lv) ELSE 0,
                                     rrank |-> IF case.fam = "num" THEN Rank(Num, case.rv) ELSE 0]))
=============================================================================
