SPECIFICATION Spec
CONSTANT BaseIds = {1, 2, 3}
CONSTANT Double = TRUE
INVARIANTS Export BasesValid
CHECK_DEADLOCK FALSE
