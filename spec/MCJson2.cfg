SPECIFICATION Spec
CONSTANT Depth = 2
INVARIANT Export
CHECK_DEADLOCK FALSE
