SPECIFICATION Spec
CONSTANT Depth = 0
INVARIANT Export
CHECK_DEADLOCK FALSE
