----------------------------- MODULE GrlSiblings -----------------------------
(***************************************************************************)
(* C07: a rule's meaning never depends on the rules it shares a knowledge  *)
(* base with.  The model enumerates near-identical sibling pairs - rules   *)
(* that differ in one constant (digits beyond the 6th decimal, sign,       *)
(* exponent, int vs float, string characters including quotes and bracket  *)
(* syntax), one operator, one negation, operand order, one selector or one *)
(* argument - and gives, for each rule ALONE, its truth and the value its  *)
(* action stores on a list of fact states.  The harness builds each rule   *)
(* alone, the pair in both orders and the pair among further rules, and    *)
(* every build must show exactly the behaviour computed here.              *)
(*                                                                         *)
(* Numbers are exact decimals [m, e] = m * 10^e (e <= 0); [..., f |-> TRUE] *)
(* marks a float literal (2.0 as opposed to 2).                             *)
(***************************************************************************)
EXTENDS Integers, Sequences, FiniteSets, TLC, Json

D(m, e) == [m |-> m, e |-> e, f |-> e < 0]
DF(m, e) == [m |-> m, e |-> e, f |-> TRUE]
RECURSIVE Pow10(_)
Pow10(n) == IF n = 0 THEN 1 ELSE 10 * Pow10(n - 1)
Min(a, b) == IF a < b THEN a ELSE b
Scaled(a, e) == a.m * Pow10(a.e - e)            \* a as an integer count of 10^e
CmpD(a, b) == LET e == Min(a.e, b.e) x == Scaled(a, e) y == Scaled(b, e) IN IF x < y THEN -1 ELSE IF x = y THEN 0 ELSE 1
AddD(a, b) == LET e == Min(a.e, b.e) IN [m |-> Scaled(a, e) + Scaled(b, e), e |-> e, f |-> a.f \/ b.f]
SubD(a, b) == LET e == Min(a.e, b.e) IN [m |-> Scaled(a, e) - Scaled(b, e), e |-> e, f |-> a.f \/ b.f]
MulD(a, b) == [m |-> a.m * b.m, e |-> a.e + b.e, f |-> a.f \/ b.f]

\* terms: [k:"c", v: decimal] [k:"s", v: string] [k:"b", v: bool] [k:"f", n: field] [k:"bin", op, l, r] [k:"not", e]
\*        [k:"sub", a, b] (fact method Sub(a, b) = a - b: argument order matters)
C(v) == [k |-> "c", v |-> v]
Str(v) == [k |-> "s", s |-> v]
F(n) == [k |-> "f", n |-> n]
Bin(o, l, r) == [k |-> "bin", op |-> o, l |-> l, r |-> r]
Not(e) == [k |-> "not", e |-> e]
SubM(a, b) == [k |-> "sub", a |-> a, b |-> b]
GSubM(a, b) == [k |-> "gsub", a |-> a, b |-> b]        \* the same method called on the result of another call: F.Me().Sub(a, b)
Bool(v) == [k |-> "bool", bv |-> v]
\* F.Kind(<literal>): a method with a loosely typed parameter tells of which kind the literal it was handed is
\* (1 integer, 2 real, 3 string, 4 boolean) - argument lists whose literals only PRINT alike (1, 1.0, "1"; true, "true") differ
KindM(a) == [k |-> "kind", a |-> a]

NumOps == {"add", "sub", "mul", "band", "bor"}
\* bitwise operators on small naturals
RECURSIVE BitOp(_, _, _, _)
BitOp(and, a, b, w) == IF w = 0 THEN 0
                       ELSE LET x == a % 2  y == b % 2  bit == IF and THEN (IF x = 1 /\ y = 1 THEN 1 ELSE 0) ELSE (IF x = 1 \/ y = 1 THEN 1 ELSE 0)
                            IN bit + 2 * BitOp(and, a \div 2, b \div 2, w - 1)
CmpOps == {"lt", "le", "gt", "ge", "eq", "ne"}
RECURSIVE Ev(_, _)
Ev(t, f) ==
  CASE t.k = "c" -> [t |-> "n", v |-> t.v]
    [] t.k = "s" -> [t |-> "s", s |-> t.s]
    [] t.k = "b" -> [t |-> "b", b |-> t.b]
    [] t.k = "f" -> f[t.n]
    [] t.k = "not" -> [t |-> "b", b |-> ~Ev(t.e, f).b]
    [] t.k = "bool" -> [t |-> "b", b |-> t.bv]
    [] t.k \in {"sub", "gsub"} -> [t |-> "n", v |-> SubD(Ev(t.a, f).v, Ev(t.b, f).v)]
    [] t.k = "kind" -> LET a == Ev(t.a, f) IN
                       [t |-> "n", v |-> D(CASE a.t = "n" -> (IF a.v.f THEN 2 ELSE 1) [] a.t = "s" -> 3 [] a.t = "b" -> 4, 0)]
    [] t.k = "bin" ->
         LET a == Ev(t.l, f)  b == Ev(t.r, f) IN
         CASE t.op = "add" /\ a.t = "s" -> [t |-> "s", s |-> a.s \o b.s]
           [] t.op = "add" -> [t |-> "n", v |-> AddD(a.v, b.v)]
           [] t.op = "sub" -> [t |-> "n", v |-> SubD(a.v, b.v)]
           [] t.op = "mul" -> [t |-> "n", v |-> MulD(a.v, b.v)]
           [] t.op = "band" -> [t |-> "n", v |-> D(BitOp(TRUE, a.v.m, b.v.m, 8), 0)]      \* (small non-negative integers only)
           [] t.op = "bor" -> [t |-> "n", v |-> D(BitOp(FALSE, a.v.m, b.v.m, 8), 0)]
           [] t.op = "and" -> [t |-> "b", b |-> a.b /\ b.b]
           [] t.op = "or"  -> [t |-> "b", b |-> a.b \/ b.b]
           [] t.op \in CmpOps /\ a.t = "n" ->
                LET c == CmpD(a.v, b.v) IN
                [t |-> "b", b |-> CASE t.op = "lt" -> c < 0 [] t.op = "le" -> c <= 0 [] t.op = "gt" -> c > 0
                                    [] t.op = "ge" -> c >= 0 [] t.op = "eq" -> c = 0 [] t.op = "ne" -> c # 0]
           [] t.op = "eq" /\ a.t = "s" -> [t |-> "b", b |-> a.s = b.s]
           [] t.op = "ne" /\ a.t = "s" -> [t |-> "b", b |-> a.s # b.s]
           [] t.op = "eq" /\ a.t = "b" -> [t |-> "b", b |-> a.b = b.b]
           [] t.op = "ne" /\ a.t = "b" -> [t |-> "b", b |-> a.b # b.b]

N(v) == [t |-> "n", v |-> v]
\* fact states: numeric field V sweeps the given decimals, the others are fixed
Fact(v, x, y, s, tt, b) == [V |-> N(v), X |-> N(D(x, 0)), Y |-> N(D(y, 0)), S |-> [t |-> "s", s |-> s], T |-> [t |-> "s", s |-> tt],
                           B |-> [t |-> "b", b |-> b], A0 |-> N(D(x + 1, 0)), A1 |-> N(D(y + 2, 0)), Ma |-> N(D(x + 3, 0)), Mb |-> N(D(y + 4, 0)),
                           \* the same places reached through the result of a method call (F.Me().X, F.GetArr()[0], F.GetM()["a"], F.Me().S),
                           \* and the fields of another object a call returns (F.Other().X)
                           GX |-> N(D(x, 0)), GY |-> N(D(y, 0)), GA0 |-> N(D(x + 1, 0)), GA1 |-> N(D(y + 2, 0)), GMa |-> N(D(x + 3, 0)),
                           GMb |-> N(D(y + 4, 0)), GS |-> [t |-> "s", s |-> s], GT |-> [t |-> "s", s |-> tt],
                           OX |-> N(D(x + 10, 0)), OY |-> N(D(y + 10, 0)), GGX |-> N(D(x, 0)), GGY |-> N(D(y, 0))]

\* ---- sibling families: each member is <<family, cond1, rhs1, cond2, rhs2, facts>> ----
\* constants that a lossy rendering could merge
ConstPairs == { <<D(1, -7), D(2, -7)>>, <<D(100000001, -2), D(100000002, -2)>>, <<D(106827123, -6), D(106827129, -6)>>,
                <<D(50000001, -1), D(50000002, -1)>>, <<D(5, -1), D(-5, -1)>>, <<D(1234561, -7), D(1234562, -7)>>,
                <<D(1, -3), D(1000, 0)>>, <<D(2, 0), DF(2, 0)>>, <<D(12, 0), D(-12, 0)>>, <<D(15, -1), D(15, 0)>>,
                <<D(3, -6), D(3, -7)>>, <<D(0, 0), DF(0, 0)>>, <<D(1, 0), DF(1, 0)>>, <<D(1000000, 0), DF(1000000, 0)>>, <<D(123456789, -8), D(123456788, -8)>> }
Mid(p) == LET e == Min(p[1].e, p[2].e) - 1
              x == Scaled(p[1], e)
              y == Scaled(p[2], e)
          IN [m |-> x + ((y - x) \div 2), e |-> e, f |-> TRUE]
ConstFacts(p) == << Fact(p[1], 1, 2, "a", "b", TRUE), Fact(p[2], 1, 2, "a", "b", TRUE), Fact(Mid(p), 2, 1, "a", "b", FALSE) >>
ConstFamily == { [fam |-> "const", c1 |-> Bin(o, F("V"), C(p[1])), a1 |-> C(p[1]), c2 |-> Bin(o, F("V"), C(p[2])), a2 |-> C(p[2]),
                  facts |-> ConstFacts(p)] : p \in ConstPairs, o \in CmpOps }

\* string constants: quotes, brackets, the engine's own node-signature syntax, case, order, blanks
StrPairs == { <<"ab", "ba">>, <<"a", "A">>, <<"", " ">>, <<"x)", "x">>, <<"a'b", "a\"b">>, <<"C(string->a)", "a">>,
              <<"a\")==ER(E(EA(A(C(string->\"a", "a">>, <<"a,b", "a),C(string->b">>, <<"[0]", "0">>, <<"a ", "a">>, <<"\\n", "n">> }
StrFacts(p) == << Fact(D(0, 0), 1, 2, p[1], "t", TRUE), Fact(D(0, 0), 1, 2, p[2], "t", TRUE), Fact(D(0, 0), 1, 2, "zz", "t", FALSE) >>
StrFamily == { [fam |-> "string", c1 |-> Bin(o, F("S"), Str(p[1])), a1 |-> Str(p[1]), c2 |-> Bin(o, F("S"), Str(p[2])), a2 |-> Str(p[2]),
                facts |-> StrFacts(p)] : p \in StrPairs, o \in {"eq", "ne"} }

\* one operator / one negation / operand order / selector / argument
IntFacts == << Fact(D(0, 0), 1, 2, "a", "b", TRUE), Fact(D(0, 0), 3, 1, "b", "a", FALSE), Fact(D(0, 0), 2, 2, "a", "a", TRUE),
               Fact(D(0, 0), 0, 5, "", "b", FALSE) >>
OpFamily == { [fam |-> "operator", c1 |-> Bin(c, Bin(o1, F("X"), F("Y")), C(D(3, 0))), a1 |-> Bin(o1, F("X"), F("Y")),
               c2 |-> Bin(c, Bin(o2, F("X"), F("Y")), C(D(3, 0))), a2 |-> Bin(o2, F("X"), F("Y")), facts |-> IntFacts] :
               o1 \in NumOps, o2 \in NumOps, c \in {"lt", "eq", "ge"} }
            \cup { [fam |-> "comparison", c1 |-> Bin(o1, F("X"), F("Y")), a1 |-> C(D(1, 0)), c2 |-> Bin(o2, F("X"), F("Y")), a2 |-> C(D(2, 0)),
               facts |-> IntFacts] : o1 \in CmpOps, o2 \in CmpOps }
            \cup { [fam |-> "logic", c1 |-> Bin(o1, Bin("gt", F("X"), C(D(1, 0))), F("B")), a1 |-> C(D(1, 0)),
               c2 |-> Bin(o2, Bin("gt", F("X"), C(D(1, 0))), F("B")), a2 |-> C(D(2, 0)), facts |-> IntFacts] : o1 \in {"and", "or"}, o2 \in {"and", "or"} }
NegFamily == { [fam |-> "negation", c1 |-> x, a1 |-> C(D(1, 0)), c2 |-> Not(x), a2 |-> C(D(2, 0)), facts |-> IntFacts] :
               x \in {F("B"), Bin("gt", F("X"), F("Y")), Bin("and", F("B"), Bin("lt", F("X"), C(D(3, 0)))), Bin("eq", F("S"), F("T"))} }
OrderFamily == { [fam |-> "order", c1 |-> Bin(c, Bin(o, F(p[1]), F(p[2])), k), a1 |-> Bin(o, F(p[1]), F(p[2])),
                  c2 |-> Bin(c, Bin(o, F(p[2]), F(p[1])), k), a2 |-> Bin(o, F(p[2]), F(p[1])), facts |-> IntFacts] :
                  o \in {"sub", "add"}, p \in {<<"X", "Y">>}, c \in {"lt", "eq"}, k \in {C(D(1, 0))} }
               \cup { [fam |-> "order", c1 |-> Bin(c, Bin("add", F("S"), F("T")), Str("ab")), a1 |-> Bin("add", F("S"), F("T")),
                  c2 |-> Bin(c, Bin("add", F("T"), F("S")), Str("ab")), a2 |-> Bin("add", F("T"), F("S")), facts |-> IntFacts] : c \in {"eq", "ne"} }
SelFamily == { [fam |-> "selector", c1 |-> Bin(c, F(p[1]), C(D(k, 0))), a1 |-> F(p[1]), c2 |-> Bin(c, F(p[2]), C(D(k, 0))), a2 |-> F(p[2]),
                facts |-> IntFacts] : p \in {<<"A0", "A1">>, <<"Ma", "Mb">>, <<"X", "Y">>, <<"GX", "GY">>, <<"GA0", "GA1">>, <<"GMa", "GMb">>, <<"GGX", "GGY">>,
                       <<"GX", "GA0">>, <<"GA0", "GMa">>}, c \in {"eq", "gt"}, k \in {2, 4} }
             \cup { [fam |-> "selector", c1 |-> Bin(c, F(p[1]), C(D(k, 0))), a1 |-> F(p[1]), c2 |-> Bin(c, F(p[2]), C(D(k, 0))), a2 |-> F(p[2]),
                facts |-> IntFacts] : p \in {<<"GX", "OX">>, <<"OX", "OY">>}, c \in {"eq", "gt"}, k \in {2, 12} }
             \cup { [fam |-> "selector", c1 |-> Bin(c, F(p[1]), Str("a")), a1 |-> F(p[1]), c2 |-> Bin(c, F(p[2]), Str("a")), a2 |-> F(p[2]),
                facts |-> IntFacts] : p \in {<<"GS", "GT">>, <<"S", "T">>}, c \in {"eq", "ne"} }
KindLits == {C(D(1, 0)), C(DF(1, 0)), Str("1"), Str("1.0"), Bool(TRUE), Str("true"), C(D(0, 0)), Str("0"), Str("")}
ArgFamily == { [fam |-> "argument", c1 |-> Bin(c, SubM(p[1], p[2]), C(D(0, 0))), a1 |-> SubM(p[1], p[2]),
                c2 |-> Bin(c, SubM(q[1], q[2]), C(D(0, 0))), a2 |-> SubM(q[1], q[2]), facts |-> IntFacts] :
                p \in {<<F("X"), C(D(1, 0))>>, <<F("X"), F("Y")>>}, q \in {<<F("X"), C(D(2, 0))>>, <<C(D(1, 0)), F("X")>>, <<F("Y"), F("X")>>},
                c \in {"gt", "eq"} }
             \cup { [fam |-> "argument", c1 |-> Bin(c, GSubM(p[1], p[2]), C(D(0, 0))), a1 |-> GSubM(p[1], p[2]),
                c2 |-> Bin(c, GSubM(q[1], q[2]), C(D(0, 0))), a2 |-> GSubM(q[1], q[2]), facts |-> IntFacts] :
                p \in {<<F("X"), C(D(1, 0))>>, <<F("GX"), F("GY")>>}, q \in {<<F("X"), C(D(2, 0))>>, <<C(D(1, 0)), F("X")>>, <<F("GY"), F("GX")>>},
                c \in {"gt", "eq"} }
             \cup { [fam |-> "argument", c1 |-> Bin(c, KindM(p), C(D(2, 0))), a1 |-> KindM(p),
                c2 |-> Bin(c, KindM(q), C(D(2, 0))), a2 |-> KindM(q), facts |-> IntFacts] :
                p \in KindLits, q \in KindLits, c \in {"gt", "eq"} }
\* constants of different types whose stored encodings coincide or nearly so: 0, 0.0, "", false; 1, 1.0, "1", true, "0"
CrossTerms == { <<Bin("eq", F("X"), C(D(0, 0))), C(D(0, 0))>>, <<Bin("eq", F("V"), C(DF(0, 0))), C(DF(0, 0))>>, <<Bin("eq", F("S"), Str("")), Str("")>>,
                <<Bin("eq", F("B"), Bool(FALSE)), C(D(7, 0))>>, <<Bin("eq", F("X"), C(D(1, 0))), C(D(1, 0))>>, <<Bin("eq", F("V"), C(DF(1, 0))), C(DF(1, 0))>>,
                <<Bin("eq", F("S"), Str("1")), Str("1")>>, <<Bin("eq", F("S"), Str("0")), Str("0")>>, <<Bin("eq", F("B"), Bool(TRUE)), C(D(8, 0))>>,
                <<Bin("eq", F("S"), Str("true")), Str("true")>>, <<Bin("eq", F("S"), Str("0.0")), Str("0.0")>> }
CrossFacts == << Fact(DF(0, 0), 0, 2, "", "b", FALSE), Fact(DF(1, 0), 1, 2, "1", "b", TRUE), Fact(DF(0, 0), 1, 2, "0", "b", TRUE),
                 Fact(DF(1, 0), 0, 2, "true", "b", FALSE), Fact(DF(5, -1), 3, 2, "0.0", "b", TRUE) >>
CrossFamily == { [fam |-> "crosstype", c1 |-> p[1], a1 |-> p[2], c2 |-> q[1], a2 |-> q[2], facts |-> CrossFacts] : p \in CrossTerms, q \in CrossTerms }

Families == ConstFamily \cup StrFamily \cup OpFamily \cup NegFamily \cup OrderFamily \cup SelFamily \cup ArgFamily \cup CrossFamily

\* thorough tier: ANY two rules of a pool (the members of the families above), not only the designed pairs
CONSTANT Pool
PoolOf(fams) == UNION {{<<m.c1, m.a1>>, <<m.c2, m.a2>>} : m \in fams}
PoolTerms == PoolOf({m \in ConstFamily : m.c1.op \in {"eq", "lt"}}) \cup PoolOf({m \in StrFamily : m.c1.op = "eq"})
             \cup PoolOf({m \in SelFamily : m.c1.op = "eq"}) \cup PoolOf({m \in ArgFamily : m.c1.op = "gt"}) \cup PoolOf(NegFamily)
             \cup CrossTerms \cup PoolOf({m \in OpFamily : m.fam = "logic"})
PoolFacts == << Fact(D(0, 0), 1, 2, "a", "b", TRUE), Fact(D(0, 0), 3, 1, "b", "a", FALSE), Fact(D(5, -1), 2, 2, "", "a", TRUE),
               Fact(DF(1, 0), 0, 5, "1", "b", FALSE), Fact(D(15, -1), 1, 0, "ab", "ab", TRUE) >>
PoolFamily == { [fam |-> "pool", c1 |-> p[1], a1 |-> p[2], c2 |-> q[1], a2 |-> q[2], facts |-> PoolFacts] : p \in PoolTerms, q \in PoolTerms }

Mut(f) == [f EXCEPT !.X = f.Y, !.GX = f.Y, !.GGX = f.Y]
MutFacts(fs) == [i \in DOMAIN fs |-> Mut(fs[i])]
VARIABLE case
Alone(c, a, facts) == [i \in DOMAIN facts |-> [holds |-> Ev(c, facts[i]).b, stores |-> Ev(a, facts[i])]]
Init == \E m \in (IF Pool THEN PoolFamily ELSE Families) :
          /\ m.c1 # m.c2 \/ m.a1 # m.a2
          /\ case = m @@ [want1 |-> Alone(m.c1, m.a1, m.facts), want2 |-> Alone(m.c2, m.a2, m.facts),
                          \* the same two rules while a third rule (of highest salience, built from another resource) changes a fact
                          \* in the first cycle (F.X = F.Y): each must then behave as it would alone on the changed facts
                          wantMut1 |-> Alone(m.c1, m.a1, MutFacts(m.facts)), wantMut2 |-> Alone(m.c2, m.a2, MutFacts(m.facts))]
Next == UNCHANGED case
Spec == Init /\ [][Next]_case
\* design-level statement: the two siblings really are distinguishable on the listed facts, or are the same rule
Distinguishable == case.want1 # case.want2 \/ case.fam \in {"operator", "comparison", "logic", "order", "argument", "selector", "crosstype", "pool"}
Export == PrintT("CASE " \o ToJson(case))
=============================================================================
