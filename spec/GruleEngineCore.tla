----------------------------- MODULE GruleEngineCore ----------------------------
(***************************************************************************)
(* Layer A: the engine's contract as a transition system.                  *)
(*                                                                         *)
(* A session of calls on ONE knowledge-base instance.  Each call is an     *)
(* Execute / ExecuteWithContext (cycles, conflict set, salience, fire,     *)
(* retract, complete, cycle budget, evaluation and action failures,        *)
(* cancellation) or a FetchMatchingRules (every live rule evaluated once,  *)
(* the satisfied ones returned in non-increasing salience order, nothing   *)
(* executed); a call starts afresh whatever the earlier calls did (C08).   *)
(* Conditions are evaluated from scratch (GrlEval!Eval); the order in      *)
(* which the rules of a cycle are evaluated is nondeterministic (Go map    *)
(* iteration order).                                                       *)
(*                                                                         *)
(* Each action is Guard /\ Effect; TraceEngine.tla checks recorded runs of *)
(* the real engine against the same guards.                                *)
(***************************************************************************)
EXTENDS Integers, Sequences, FiniteSets

\* the expression / action semantics (GrlEval.tla) enters as three operators, so that the contract can be model-checked with the
\* real semantics (GruleEngine.tla instantiates this module) and reasoned about deductively with the semantics left opaque
\* (GruleEngineProofs.tla)
CONSTANTS Holds(_, _),          \* Holds(rule, facts): the rule's condition evaluates to true
          Fails(_, _),          \* Fails(rule, facts): the evaluation of the condition fails
          RunActions(_, _, _)   \* RunActions(actions, 1, [f, ret, comp, err]): the state after the action list

CONSTANTS Programs,     \* set of rule sets: each a function  name -> [sal, w, a, del]
          FactStates,   \* set of initial fact states
          MaxCycles,    \* set of MaxCycle values
          Flags,        \* set of values of ReturnErrOnFailedRuleEvaluation
          CanCancel,    \* whether the environment may cancel the context
          Modes,        \* kinds of call: subset of {"exec", "fetch"}
          MaxCalls      \* calls per session on the one instance

VARIABLES prog, facts, maxc, flag,
          retracted, complete, cancelled,
          cyc,          \* number of rules fired so far
          evald, cands, \* this cycle: rules evaluated / reported as candidates
          phase,        \* "eval" | "done"
          result,       \* "" while running, then nil | max | evalerr | acterr | ctx
          errRule,
          mode,         \* kind of the current call
          calls,        \* number of calls started so far
          matched,      \* result of a FetchMatchingRules call
          log           \* history variable: sequence of <<"fire", rule, factsBefore>> (hidden by VIEW)

vars == <<prog, facts, maxc, flag, retracted, complete, cancelled, cyc, evald, cands, phase, result, errRule, mode, calls, matched, log>>
view == <<prog, facts, maxc, flag, retracted, complete, cancelled, cyc, evald, cands, phase, result, errRule, mode, calls, matched>>

Names  == DOMAIN prog
Live   == {r \in Names : ~prog[r].del}
Active == Live \ retracted
Truth(r)  == Holds(prog[r], facts)
Broken(r) == Fails(prog[r], facts)
MaxSal(S) == {r \in S : \A c \in S : prog[c].sal <= prog[r].sal}

Init == /\ prog \in Programs /\ facts \in FactStates /\ maxc \in MaxCycles /\ flag \in Flags
        /\ retracted = {} /\ complete = FALSE /\ cancelled = FALSE /\ cyc = 0
        /\ evald = {} /\ cands = {} /\ phase = "eval" /\ result = "" /\ errRule = "" /\ log = <<>>
        /\ mode \in Modes /\ calls = 1 /\ matched = <<>>

Finish(res, r) == phase' = "done" /\ result' = res /\ errRule' = r

\* -- evaluation of one not yet evaluated active rule --------------------------------------------------
EvalGuard(r) == phase = "eval" /\ ~cancelled /\ r \in Active /\ r \notin evald
EvalRule(r) ==
  /\ EvalGuard(r)
  /\ IF Broken(r) /\ flag
     THEN /\ Finish("evalerr", r) /\ UNCHANGED <<evald, cands>>
     ELSE /\ evald' = evald \cup {r}
          /\ cands' = IF Truth(r) THEN cands \cup {r} ELSE cands
          /\ UNCHANGED <<phase, result, errRule>>
  /\ UNCHANGED <<prog, facts, maxc, flag, retracted, complete, cancelled, cyc, mode, calls, matched, log>>

\* -- conflict resolution and firing ------------------------------------------------------------------
FireGuard(r) == /\ phase = "eval" /\ ~cancelled /\ mode = "exec"
                /\ evald = Active            \* every active rule was evaluated in this cycle
                /\ r \in MaxSal(cands)       \* a candidate of maximal salience
                /\ cyc < maxc                \* budget
Fire(r) ==
  /\ FireGuard(r)
  /\ LET s == RunActions(prog[r].a, 1, [f |-> facts, ret |-> retracted, comp |-> complete, err |-> FALSE]) IN
     /\ facts' = s.f /\ retracted' = s.ret /\ complete' = s.comp
     /\ log' = Append(log, <<"fire", r, facts>>)
     /\ cyc' = cyc + 1 /\ evald' = {} /\ cands' = {}
     /\ IF s.err THEN Finish("acterr", r)
        ELSE IF s.comp THEN Finish("nil", "")
        ELSE UNCHANGED <<phase, result, errRule>>
  /\ UNCHANGED <<prog, maxc, flag, cancelled, mode, calls, matched>>

ReturnQuiescent == /\ phase = "eval" /\ ~cancelled /\ mode = "exec" /\ evald = Active /\ cands = {}
                   /\ Finish("nil", "")
                   /\ UNCHANGED <<prog, facts, maxc, flag, retracted, complete, cancelled, cyc, evald, cands, mode, calls, matched, log>>
ReturnMaxCycle ==  /\ phase = "eval" /\ ~cancelled /\ mode = "exec" /\ evald = Active /\ cands # {} /\ cyc = maxc
                   /\ Finish("max", "")
                   /\ UNCHANGED <<prog, facts, maxc, flag, retracted, complete, cancelled, cyc, evald, cands, mode, calls, matched, log>>

\* -- FetchMatchingRules: every live rule has been evaluated (EvalRule; nothing is retracted at the start of a call, so
\*    Active = Live); the satisfied ones are returned, each once, in non-increasing salience order (ties in any order)
SortedSeqs(S) == {q \in [1..Cardinality(S) -> S] :
                    /\ \A i, j \in DOMAIN q : i # j => q[i] # q[j]
                    /\ \A i, j \in DOMAIN q : i < j => prog[q[i]].sal >= prog[q[j]].sal}
ReturnFetch == /\ phase = "eval" /\ mode = "fetch" /\ evald = Active
               /\ matched' \in SortedSeqs(cands)
               /\ Finish("nil", "")
               /\ UNCHANGED <<prog, facts, maxc, flag, retracted, complete, cancelled, cyc, evald, cands, mode, calls, log>>

\* -- the next call on the same instance starts afresh (C08): nothing of the earlier call survives but the facts ------
NextCall(m) == /\ phase = "done" /\ calls < MaxCalls /\ m \in Modes
               /\ phase' = "eval" /\ mode' = m /\ calls' = calls + 1
               /\ retracted' = {} /\ complete' = FALSE /\ cancelled' = FALSE /\ cyc' = 0
               /\ evald' = {} /\ cands' = {} /\ result' = "" /\ errRule' = "" /\ matched' = <<>>
               /\ UNCHANGED <<prog, facts, maxc, flag, log>>

\* -- cancellation: the environment may cancel at any control point; nothing fires afterwards ------------
Cancel == /\ CanCancel /\ phase = "eval" /\ mode = "exec" /\ ~cancelled /\ cancelled' = TRUE
          /\ UNCHANGED <<prog, facts, maxc, flag, retracted, complete, cyc, evald, cands, phase, result, errRule, mode, calls, matched, log>>
ReturnCancelled == /\ phase = "eval" /\ cancelled
                   /\ Finish("ctx", "")
                   /\ UNCHANGED <<prog, facts, maxc, flag, retracted, complete, cancelled, cyc, evald, cands, mode, calls, matched, log>>

Next == \/ \E r \in Names : EvalRule(r) \/ Fire(r)
        \/ ReturnQuiescent \/ ReturnMaxCycle \/ Cancel \/ ReturnCancelled
        \/ ReturnFetch \/ \E m \in Modes : NextCall(m)
Spec == Init /\ [][Next]_vars
FairSpec == Spec /\ WF_vars(Next)

\* ---------------------------------------------------------------------------------------------------------
\* Properties (the listed engine properties, at the level of the contract)
\* C01: only an active rule whose condition holds now is ever fired
FiresOnlyTrue == [][\A r \in Names : (cyc' = cyc + 1 /\ log' # log /\ log'[Len(log')][2] = r)
                       => (r \in Active /\ Truth(r))]_vars
\* C02: a nil return without Complete means no active rule is satisfied
QuiescentAtNil == (mode = "exec" /\ result = "nil" /\ ~complete) => ~\E r \in Active : Truth(r)
\* C03: the fired rule has maximal salience among the satisfied active rules
FiresMaxSalience == [][\A r \in Names : (log' # log /\ log'[Len(log')][2] = r)
                       => \A c \in Active : Truth(c) => prog[c].sal <= prog[r].sal]_vars
\* C06: budget and faithful cycle-limit error
WithinBudget == cyc <= maxc
MaxIsJustified == result = "max" => (cyc = maxc /\ \E r \in Active : Truth(r))
\* C10: a retracted rule is never evaluated or fired again; Complete ends the run
RetractedStaysOut == [][\A r \in retracted : r \notin evald' /\ (log' # log => log'[Len(log')][2] # r)]_vars
CompleteEnds == complete => phase = "done"
\* C14: failures are reported, name an active rule, and stop the run
ErrorsNamed == /\ result = "evalerr" => (flag /\ errRule \in Active /\ Broken(errRule))
               /\ result = "acterr" => errRule \in Names
\* C15: nothing fires after cancellation
NoFireAfterCancel == [][cancelled => (log' = log /\ facts' = facts)]_vars
\* C06: every run returns
Terminates == <>(phase = "done")
\* C08: a call starts afresh - and every invariant / action property above holds for the later calls of a session as well
FreshAtStart == [][(phase = "done" /\ phase' = "eval") => (retracted' = {} /\ ~complete' /\ ~cancelled' /\ cyc' = 0 /\ evald' = {} /\ facts' = facts)]_vars
\* C11: a fetch returns exactly the satisfied live rules, each once, by salience, and changes nothing
Range(q) == {q[i] : i \in DOMAIN q}
FetchExact == (mode = "fetch" /\ result = "nil") =>
                 /\ Range(matched) = {r \in Live : Truth(r)} /\ Len(matched) = Cardinality(Range(matched))
                 /\ \A i, j \in DOMAIN matched : i < j => prog[matched[i]].sal >= prog[matched[j]].sal
FetchPure == [][(mode = "fetch" /\ mode' = "fetch" /\ calls' = calls) => (facts' = facts /\ retracted' = retracted /\ log' = log /\ complete' = complete)]_vars

TypeOK == /\ phase \in {"eval", "done"} /\ result \in {"", "nil", "max", "evalerr", "acterr", "ctx"}
          /\ evald \subseteq Names /\ cands \subseteq evald /\ retracted \subseteq STRING
          /\ mode \in {"exec", "fetch"} /\ calls \in 1..MaxCalls /\ Range(matched) \subseteq Names
=============================================================================
