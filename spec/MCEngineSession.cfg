SPECIFICATION Spec
CONSTANTS
  Programs <- MCProgramsSmall
  FactStates <- MCFacts
  MaxCycles = {0, 1, 2}
  Flags = {TRUE, FALSE}
  Modes = {"exec", "fetch"}
  MaxCalls = 3
  CanCancel = TRUE
VIEW view
INVARIANTS TypeOK FetchExact QuiescentAtNil WithinBudget MaxIsJustified CompleteEnds ErrorsNamed
PROPERTIES FetchPure FreshAtStart FiresOnlyTrue FiresMaxSalience RetractedStaysOut NoFireAfterCancel
CHECK_DEADLOCK FALSE
