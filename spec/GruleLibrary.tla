---------------------------- MODULE GruleLibrary ----------------------------
(***************************************************************************)
(* Histories of operations on a knowledge library: build (accepted,        *)
(* duplicate name, ungrammatical text, invalid literal), remove (library,  *)
(* blueprint, instance), instantiate, store, load.  (C08/C09/C12/C16/C17)   *)
(*                                                                         *)
(* Abstract state: which rule names are in force in each knowledge base    *)
(* and under which text; what each instance and each stored stream holds.  *)
(* The history variable carries, per step, the operation, its expected     *)
(* outcome and the expected projection; TLC enumerates every history up to *)
(* Depth and exports it (one JSON line each); the harness replays it on    *)
(* the real library and compares after every step.                         *)
(***************************************************************************)
EXTENDS Integers, Sequences, FiniteSets, TLC, Json

CONSTANTS Kbs,        \* knowledge-base keys, e.g. {"k1", "k2"}
          RuleNames,  \* e.g. {"A", "B"}
          Texts,      \* text variants per name, e.g. {1, 2}: a re-built name is distinguishable
          MaxInst,    \* instances per history
          Depth,      \* history length
          Ops         \* operation kinds enabled in this configuration

VARIABLES lib,      \* [Kbs -> [RuleNames -> Texts \cup {0}]]   0 = no such active rule
          built,    \* [Kbs -> BOOLEAN]  the knowledge base exists in the library
          insts,    \* sequence of [kb, rules]   (rules as lib[kb] at creation, then own removals)
          stream,   \* [Kbs -> [has : BOOLEAN, rules : [RuleNames -> Texts \cup {0}]]]   last stored stream per key
          hist      \* sequence of steps [op, kb, name, text, inst, ow, ok, lib, insts]

vars == <<lib, built, insts, stream, hist>>
None == [n \in RuleNames |-> 0]

Init == /\ lib = [k \in Kbs |-> None] /\ built = [k \in Kbs |-> FALSE]
        /\ insts = <<>> /\ stream = [k \in Kbs |-> [has |-> FALSE, rules |-> None]] /\ hist = <<>>

\* what the harness can observe after a step: active rules (name -> text) per knowledge base and per instance
Proj(l, b, is) == [lib |-> [k \in Kbs |-> IF b[k] THEN l[k] ELSE None], built |-> b,
                   insts |-> [i \in DOMAIN is |-> is[i].rules]]
Record(step, l, b, is) == hist' = Append(hist, step @@ [proj |-> Proj(l, b, is)])
Base(op, k, n, t, i, ow, ok) == [op |-> op, kb |-> k, name |-> n, text |-> t, inst |-> i, ow |-> ow, ok |-> ok]

CanStep(op) == op \in Ops /\ Len(hist) < Depth

\* -- builds ---------------------------------------------------------------------------------------------
\* a resource holding one rule; an existing name is an error and the rule in force stays (C16)
Build(k, n, t) ==
  /\ CanStep("build")
  /\ LET dup == lib[k][n] # 0
         l2 == IF dup THEN lib ELSE [lib EXCEPT ![k][n] = t]
         b2 == [built EXCEPT ![k] = TRUE]
     IN /\ lib' = l2 /\ built' = b2 /\ UNCHANGED <<insts, stream>>
        /\ Record(Base("build", k, n, t, 0, FALSE, ~dup), l2, b2, insts)
\* a resource holding the same new name twice: error, the first one is in force (C16)
BuildTwice(k, n, t) ==
  /\ CanStep("build2") /\ lib[k][n] = 0
  /\ LET l2 == [lib EXCEPT ![k][n] = t]
         b2 == [built EXCEPT ![k] = TRUE]
     IN /\ lib' = l2 /\ built' = b2 /\ UNCHANGED <<insts, stream>>
        /\ Record(Base("build2", k, n, t, 0, FALSE, FALSE), l2, b2, insts)
\* a resource that re-defines an existing name next to a new, unrelated rule: error, the rule in force stays (C16)
\* (whether the unrelated rule is taken is not specified: it never matches a probe and is not part of the projection)
BuildDupWithCompanion(k, n, t) ==
  /\ CanStep("builddupc") /\ lib[k][n] # 0
  /\ UNCHANGED <<lib, built, insts, stream>>
  /\ Record(Base("builddupc", k, n, t, 0, FALSE, FALSE), lib, built, insts)
\* an ungrammatical text / a text with an invalid literal: error, nothing changes (C17)
BuildBad(k, kind) ==
  /\ CanStep(kind)
  /\ LET b2 == [built EXCEPT ![k] = TRUE] IN
     /\ built' = b2 /\ UNCHANGED <<lib, insts, stream>>
     /\ Record(Base(kind, k, "", 0, 0, FALSE, FALSE), lib, b2, insts)

\* -- removals -------------------------------------------------------------------------------------------
RemoveLib(k, n, how) ==   \* how: "rmlib" (KnowledgeLibrary.RemoveRuleEntry) | "rmkb" (blueprint's own method)
  /\ CanStep(how) /\ built[k]
  /\ LET l2 == [lib EXCEPT ![k][n] = 0] IN
     /\ lib' = l2 /\ UNCHANGED <<built, insts, stream>>
     /\ Record(Base(how, k, n, 0, 0, FALSE, TRUE), l2, built, insts)
RemoveInst(i, n) ==
  /\ CanStep("rminst") /\ i \in DOMAIN insts
  /\ LET is2 == [insts EXCEPT ![i].rules[n] = 0] IN
     /\ insts' = is2 /\ UNCHANGED <<lib, built, stream>>
     /\ Record(Base("rminst", insts[i].kb, n, 0, i, FALSE, TRUE), lib, built, is2)

\* -- instances: always possible for a knowledge base that exists (C09), a faithful copy -------------------
NewInstance(k) ==
  /\ CanStep("inst") /\ built[k] /\ Len(insts) < MaxInst
  /\ LET is2 == Append(insts, [kb |-> k, rules |-> lib[k]]) IN
     /\ insts' = is2 /\ UNCHANGED <<lib, built, stream>>
     /\ Record(Base("inst", k, "", 0, Len(is2), FALSE, TRUE), lib, built, is2)

\* -- store / load (C12) ----------------------------------------------------------------------------------
Store(k) ==
  /\ CanStep("store") /\ built[k]
  /\ stream' = [stream EXCEPT ![k] = [has |-> TRUE, rules |-> lib[k]]] /\ UNCHANGED <<lib, built, insts>>
  /\ Record(Base("store", k, "", 0, 0, FALSE, TRUE), lib, built, insts)
\* loading the stream of key k back into the library: replaces the entry only with overwrite
Load(k, ow) ==
  /\ CanStep("load") /\ stream[k].has
  /\ LET okk == ow \/ ~built[k]
         l2 == IF okk THEN [lib EXCEPT ![k] = stream[k].rules] ELSE lib
         b2 == IF okk THEN [built EXCEPT ![k] = TRUE] ELSE built
     IN /\ lib' = l2 /\ built' = b2 /\ UNCHANGED <<insts, stream>>
        /\ Record(Base("load", k, "", 0, 0, ow, okk), l2, b2, insts)

Next == \/ \E k \in Kbs, n \in RuleNames, t \in Texts : Build(k, n, t) \/ BuildTwice(k, n, t) \/ BuildDupWithCompanion(k, n, t)
        \/ \E k \in Kbs, kind \in {"badsyntax", "badliteral"} : BuildBad(k, kind)
        \/ \E k \in Kbs, n \in RuleNames, how \in {"rmlib", "rmkb"} : RemoveLib(k, n, how)
        \/ \E i \in 1..MaxInst, n \in RuleNames : RemoveInst(i, n)
        \/ \E k \in Kbs : NewInstance(k) \/ Store(k)
        \/ \E k \in Kbs, ow \in BOOLEAN : Load(k, ow)
Spec == Init /\ [][Next]_vars

\* ---------------------------------------------------------------------------------------------------------
\* C16: an operation on one knowledge base never changes another one, nor any existing instance of another
OtherKbsUntouched ==
  [][\A k \in Kbs : (hist' # hist /\ hist'[Len(hist')].kb # k) => (lib'[k] = lib[k] /\ stream'[k] = stream[k])]_vars
\* C09: nothing but its own RemoveRuleEntry changes an instance
InstancesIsolated ==
  [][\A i \in DOMAIN insts : (hist' # hist /\ ~(hist'[Len(hist')].op = "rminst" /\ hist'[Len(hist')].inst = i))
                              => insts'[i] = insts[i]]_vars
\* C16: a removed rule stays out of the knowledge base until the name is built again or an older stream is loaded
RemovedStaysRemoved ==
  [][\A k \in Kbs, n \in RuleNames :
       (lib[k][n] = 0 /\ lib'[k][n] # 0) => hist'[Len(hist')].op \in {"build", "build2", "load"}]_vars
\* C16/C17: a rejected build never replaces or adds anything except the first of a doubled new name
RejectedBuildHarmless ==
  [][(hist' # hist /\ hist'[Len(hist')].op \in {"badsyntax", "badliteral"}) => lib' = lib /\ insts' = insts]_vars
DupKeepsExisting ==
  [][\A k \in Kbs, n \in RuleNames : (lib[k][n] # 0 /\ hist' # hist /\ hist'[Len(hist')].op = "build"
        /\ hist'[Len(hist')].kb = k /\ hist'[Len(hist')].name = n) => (lib'[k][n] = lib[k][n] /\ ~hist'[Len(hist')].ok)]_vars

\* export: one JSON line per complete history
Export == Len(hist) = Depth => PrintT("HIST " \o ToJson(hist))
=============================================================================
