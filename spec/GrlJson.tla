------------------------------- MODULE GrlJson -------------------------------
(***************************************************************************)
(* C18: JSON rule definitions.  A condition / action operand is a JSON     *)
(* value: a plain number or boolean, a plain string (an object path), an   *)
(* {"obj": path} or {"const": v} wrapper, or an operator object            *)
(* {"op": [x, y, ...]} nested to any depth.  Its meaning groups operands   *)
(* EXACTLY as they are nested: {"mul":[{"plus":[1,2]},3]} is (1+2)*3;      *)
(* several operands fold to the left; "not" with one operand is logical    *)
(* negation, with two or more it is !=.  ToTree maps a JSON tree to a      *)
(* GrlExpr tree, whose value GrlExpr!Eval gives; TLC enumerates trees of   *)
(* depth 1..3 and exports the well-typed ones with their value.            *)
(***************************************************************************)
EXTENDS GrlExpr

JOps == {"and", "or", "eq", "not", "gt", "gte", "lt", "lte", "bor", "band", "plus", "minus", "div", "mul", "mod"}
GOp == [o \in JOps |-> CASE o = "and" -> "and" [] o = "or" -> "or" [] o = "eq" -> "eq" [] o = "not" -> "ne" [] o = "gt" -> "gt"
                         [] o = "gte" -> "ge" [] o = "lt" -> "lt" [] o = "lte" -> "le" [] o = "bor" -> "bor" [] o = "band" -> "band"
                         [] o = "plus" -> "add" [] o = "minus" -> "sub" [] o = "div" -> "div" [] o = "mul" -> "mul" [] o = "mod" -> "mod"]

\* JSON nodes
JNum(n) == [j |-> "num", n |-> n]                 \* 2
JBool(b) == [j |-> "bool", v |-> b]               \* true
JStr(p, val) == [j |-> "str", p |-> p, val |-> val]     \* "S.A"   (plain string: an object path), val: what the path holds
JObj(p, val) == [j |-> "obj", p |-> p, val |-> val]     \* {"obj": "S.A"}
JConst(v) == [j |-> "const", val |-> v]           \* {"const": v}
JOp(o, args) == [j |-> "op", op |-> o, args |-> args]

RECURSIVE ToTree(_), FoldArgs(_, _, _)
FoldArgs(o, args, i) == IF i = 1 THEN ToTree(args[1])
                        ELSE [k |-> "bin", op |-> GOp[o], l |-> FoldArgs(o, args, i - 1), r |-> ToTree(args[i])]
ToTree(n) == CASE n.j = "num" -> I(n.n)
               [] n.j = "bool" -> B(n.v)
               [] n.j \in {"str", "obj", "const"} -> n.val
               [] n.j = "op" -> IF n.op = "not" /\ Len(n.args) = 1 THEN [k |-> "not", e |-> ToTree(n.args[1])]
                                ELSE FoldArgs(n.op, n.args, Len(n.args))

VARIABLE case
Leaves == {JNum(2), JNum(3), JObj("S.A", I(6)), JStr("S.Bv", I(3)), JBool(TRUE), JConst(B(FALSE)), JConst(I(4)), JStr("S.T", B(TRUE))}
Tiny == {JNum(2), JNum(3), JBool(TRUE), JObj("S.A", I(6))}
SmallOps == {"plus", "minus", "mul", "div", "and", "or", "lt", "eq", "not", "mod"}
L1(z) == {JOp(o, <<a, b>>) : o \in JOps, a \in Leaves, b \in Leaves}
      \cup {JOp(o, <<a, b, c>>) : o \in {"plus", "minus", "mul", "and", "or", "eq"}, a \in Tiny, b \in Tiny, c \in Tiny}
      \cup {JOp("not", <<a>>) : a \in Leaves}
WT(n) == TypeOf(ToTree(n)) # "bad"
\* (sets are bound with LET so that TLC computes each of them once)
L2(z) == LET l1 == {n \in {JOp(o, <<a, b>>) : o \in SmallOps, a \in Tiny, b \in Tiny} : WT(n)} IN
         {JOp(o, <<a, b>>) : o \in JOps, a \in l1, b \in l1 \cup Tiny} \cup {JOp(o, <<b, a>>) : o \in JOps, a \in l1, b \in Tiny}
         \cup {JOp("not", <<a>>) : a \in l1}
\* depth 3 is enumerated with nested quantifiers (no 5*10^5-element set of deep records has to be normalised)
L1w == {n \in {JOp(o, <<a, b>>) : o \in SmallOps, a \in Tiny, b \in Tiny} : WT(n)}
L2w == {n \in {JOp(o, <<a, b>>) : o \in {"plus", "mul", "minus", "and", "or"}, a \in L1w, b \in L1w} : WT(n)}
Ops3 == {"div", "mul", "minus", "and", "or", "lt", "plus"}
Emit(n) == /\ WT(n) /\ Eval(ToTree(n)) \notin {Err, Skip}
           /\ case = [fam |-> "jsontree", json |-> n, typ |-> TypeOf(ToTree(n)), want |-> Eval(ToTree(n))]
Init3 == \/ \E o \in Ops3, x \in {JNum(2), JBool(TRUE), JNum(8)}, l \in L2w : Emit(JOp(o, <<x, l>>))
         \/ \E o \in Ops3, x \in {JNum(2), JBool(TRUE)}, l \in L2w : Emit(JOp(o, <<l, x>>))
         \/ \E l \in L2w : Emit(JOp("not", <<l>>))
CONSTANT Depth
\* string constants that must round-trip exactly, and malformed rule shapes that must be rejected
Strings == {"a\"b", "back\\slash", "C:\\temp\\new\\report.txt", "tab\there", "nl\nline", "'single'", "x)(", "semi;colon", "", " ",
            "\\d+\\.\\d+$", "ends with backslash\\", "/* c */", "// c", "a\\\\b", "DOMAIN\\user", "q\"\\n", "}{", "then", "when true",
            "10% discount", "50%-off", "100%", "%d items", "%%", "%s", "%!d(MISSING)", "a%20b",
            "4", "false", "true", "2", "3", "6"}
BadShapes == {"unknown-operator", "arity-0", "arity-1-eq", "arity-1-plus", "arity-1-lt", "set-arity-1", "set-arity-3", "call-arity-0", "missing-name",
              "missing-when", "missing-then", "when-number", "empty-input", "blank-input", "not-json", "two-keys", "obj-not-string",
              "const-array", "unknown-nested", "arity-1-nested", "not-arity-0", "and-arity-0", "plus-arity-0-nested", "not-arity-0-in-then",
              "call-args-null", "set-null", "when-null-operands"}
\* numbers are given as decimal text (TLC integers are 32-bit): the translated rule must denote exactly the number the
\* JSON text denotes (as a float64), as a bare operand, inside {"const": n} and as a call argument
Numbers == {"16777217", "20240131", "123456789", "0.123456789", "1234567.891", "4294967297", "0.1", "-16777217", "100000000", "33554433",
            "0.30000000000000004", "3.141592653589793", "2.5e-7", "1e15", "123456.7", "7", "0.5", "-2.25", "281474976710657", "1e-9"}
NumForms == {"plain", "const", "arg"}
\* rule sets: the translation of an array is the concatenation of the translations of its elements - an element takes
\* nothing over from its neighbours.  desc "-" / sal 99 mean that the member is absent (defaults "" and 0).
GoodElems == {[k |-> "rule", desc |-> d, sal |-> sl] : d \in {"-", "d1", "d2"}, sl \in {99, 0, 5, -3}}
BadElems == {[k |-> b, desc |-> "-", sal |-> 99] : b \in {"no-when", "no-then", "no-name", "null"}}
Elems == GoodElems \cup BadElems
SetWant(es) == [accepted |-> \A i \in DOMAIN es : es[i].k = "rule",
                rules |-> [i \in DOMAIN es |-> [desc |-> IF es[i].desc = "-" THEN "" ELSE es[i].desc, sal |-> IF es[i].sal = 99 THEN 0 ELSE es[i].sal]]]
Trees(z) == CASE Depth = 1 -> L1(0) [] Depth = 2 -> L2(0) [] OTHER -> {}
Init == IF Depth = 0
        THEN \/ \E s \in Strings : case = [fam |-> "jsonstr", str |-> s, want |-> S(s)]
             \/ \E b \in BadShapes : case = [fam |-> "jsonbad", shape |-> b, want |-> Err]
             \/ \E x \in Numbers, f \in NumForms : case = [fam |-> "jsonnum", num |-> x, form |-> f, want |-> S(x)]
             \/ \E a \in Elems, b \in Elems : case = [fam |-> "jsonset", elems |-> <<a, b>>, want |-> S(""), set |-> SetWant(<<a, b>>)]
             \/ \E a \in GoodElems, b \in Elems, c \in GoodElems : case = [fam |-> "jsonset", elems |-> <<a, b, c>>, want |-> S(""), set |-> SetWant(<<a, b, c>>)]
        ELSE IF Depth = 3 THEN Init3
        ELSE \/ \E n \in Trees(0) : Emit(n)
             \* the other forms of an action / a condition: {"set": [target, tree]} instead of a call, and condition and actions given
             \* as GRL text (a string is taken over as it is; an action string may or may not end in a semicolon)
             \/ Depth = 1 /\ \E n \in Trees(0), f \in {"set", "text"} :
                    /\ WT(n) /\ Eval(ToTree(n)) \notin {Err, Skip}
                    /\ case = [fam |-> "jsontree", form |-> f, json |-> n, typ |-> TypeOf(ToTree(n)), want |-> Eval(ToTree(n))]
Next == UNCHANGED case
Spec == Init /\ [][Next]_case
Export == PrintT("CASE " \o ToJson(case))
=============================================================================
