----------------------------- MODULE TraceEngine -----------------------------
(***************************************************************************)
(* Monitor: validates recorded executions of the real engine (ndjson, one  *)
(* event per line, many traces concatenated, each starting with "begin")   *)
(* against the layer-A contract.  Every action is                          *)
(*     IsEvent(e) /\ IF Guard THEN UNCHANGED viol ELSE Flag(code) /\ Effect *)
(* with the guards of GruleEngine.tla, so a trace is never blocked: the    *)
(* failing guard is recorded (first flag of a trace = verdict), the state  *)
(* is resynchronised from the next logged snapshot and the rest of the     *)
(* trace is still examined.  Every step is deterministic given the logged  *)
(* arguments, so validation is linear in the trace length.                 *)
(***************************************************************************)
EXTENDS GrlEval, Json

CONSTANTS TraceFile,
          Focus        \* "C03", ... : the property whose check is being run, or "none"
Trace == ndJsonDeserialize(TraceFile)

VARIABLES l,          \* next line of Trace
          tid, mode, rules, maxc, flag,   \* the call being validated (from "begin")
          facts,      \* fact state per the specification
          retracted, complete, cancelled,
          cyc,        \* firings so far
          evald, cands, execd,      \* this cycle: rules evaluated, reported candidates, a rule was executed
          prevEvald, prevCands,     \* the same for the previous cycle (antecedent bookkeeping)
          pendErr,    \* an action of the last executed rule failed: "" or the rule name
          lastExec, done,
          pre,        \* the state before the rule announced last: [f, ret, comp] (a cancellation seen by the check at the start of
                      \* RuleEntry.Execute means that the announced rule does not run)
          viol,       \* flags raised: <<code, trace id, line>>
          marks,      \* antecedents met: code -> number of traces in which it occurred (non-triviality evidence)
          seen,       \* antecedent codes already counted for the current trace
          hOn, hVars, \* C13: the program holds one counted method atom; the variables occurring in it
          hUsed, hLimit, \* real evaluations of it since the last invalidation / how many are admissible
          hFresh      \* the action list being executed holds an invalidation: the usage of the epoch it leaves is unknown

vars == <<l, tid, mode, rules, maxc, flag, facts, retracted, complete, cancelled, cyc, evald, cands, execd,
          prevEvald, prevCands, pendErr, lastExec, done, pre, viol, marks, seen, hOn, hVars, hUsed, hLimit, hFresh>>
hvars == <<hOn, hVars, hUsed, hLimit, hFresh>>

T == Trace[l]
Is(e) == l <= Len(Trace) /\ T.ev = e /\ l' = l + 1

Names   == DOMAIN rules
Live    == {r \in Names : ~rules[r].del}          \* not removed
Active  == Live \ retracted
Truth(r) == Holds(rules[r], facts)
Broken(r) == Fails(rules[r], facts)
HasRetract(r) == \E i \in DOMAIN rules[r].a : rules[r].a[i].k = "retract"
MaxSal(S) == {r \in S : \A c \in S : rules[c].sal <= rules[r].sal}

Flag(code) == /\ PrintT(<<"FLAG", code, tid, l>>)
              /\ viol' = viol \cup {<<code, tid, l>>}
Check(ok, code) == IF ok THEN UNCHANGED viol ELSE Flag(code)
\* first failing check of a list decides the code
RECURSIVE FirstBad(_, _)
FirstBad(cs, i) == IF i > Len(cs) THEN "" ELSE IF cs[i][1] THEN FirstBad(cs, i + 1) ELSE cs[i][2]
\* Every check of a list is a statement of its own; when several of one event fail, the one of the property in focus
\* (the property whose check is being run) names the flag, otherwise the first.
Pref(code) == Focus # "none" /\ Len(code) >= 3 /\ SubSeq(code, 1, 3) = Focus
RECURSIVE FirstPref(_, _)
FirstPref(cs, i) == IF i > Len(cs) THEN "" ELSE IF ~cs[i][1] /\ Pref(cs[i][2]) THEN cs[i][2] ELSE FirstPref(cs, i + 1)
Checks(cs) == LET p == FirstPref(cs, 1)
                  b == IF p # "" THEN p ELSE FirstBad(cs, 1)
              IN IF b = "" THEN UNCHANGED viol ELSE Flag(b)
\* (a function of counters, not a set of <<code, trace>> pairs: the monitor's state stays small, validation stays linear)
Mark(S) == LET new == S \ seen IN
           /\ seen' = seen \cup S
           /\ marks' = [c \in DOMAIN marks \cup new |-> (IF c \in DOMAIN marks THEN marks[c] ELSE 0) + (IF c \in new THEN 1 ELSE 0)]
NoMark == UNCHANGED <<marks, seen>>

\* ---- C13: static text of access paths and the variables occurring in an expression ----
RECURSIVE PText(_, _, _), EText(_), VarsIn(_), PathVars(_, _)
EText(e) == CASE e.k = "c" -> (IF e.t = "i" THEN ToString(e.v) ELSE IF e.t = "s" THEN "'" \o e.v \o "'" ELSE "?")
              [] e.k = "p" -> PText(e.path, 1, "")
              [] OTHER -> "?"
PText(steps, i, acc) ==
  IF i > Len(steps) THEN acc
  ELSE LET s == steps[i] IN
       IF "n" \in DOMAIN s THEN PText(steps, i + 1, IF i = 1 THEN s.n ELSE acc \o "." \o s.n)
       ELSE PText(steps, i + 1, acc \o "[" \o EText(s.x) \o "]")
\* every path, every prefix of it, and the paths inside its selectors
PathVars(steps, i) ==
  IF i > Len(steps) THEN {}
  ELSE {PText(SubSeq(steps, 1, i), 1, "")}
       \cup (IF "x" \in DOMAIN steps[i] THEN VarsIn(steps[i].x) ELSE {})
       \cup PathVars(steps, i + 1)
VarsIn(e) == CASE e.k \in {"c", "now"} -> {}
               [] e.k = "p"    -> PathVars(e.path, 1)
               [] e.k = "not"  -> VarsIn(e.e)
               [] e.k = "bin"  -> VarsIn(e.l) \cup VarsIn(e.r)
               [] e.k = "call" -> PathVars(e.recv, 1) \cup UNION {VarsIn(e.args[j]) : j \in DOMAIN e.args}
               [] e.k = "sel"  -> VarsIn(e.base) \cup VarsIn(e.i)
               [] e.k = "mem"  -> VarsIn(e.base)
               [] OTHER        -> {}
\* an invalidation event concerning the counted atom: an assignment to a variable occurring in its receiver
\* or arguments, or a Forget/Changed naming one of them
Invalidates(a) == \/ a.k = "asg" /\ PText(a.path, 1, "") \in hVars
                  \/ a.k = "repoint" /\ "F.P" \in hVars
                  \/ a.k = "forget" /\ a.name \in hVars
\* number of invalidation events among the actions of a list that were really executed
RECURSIVE Invalidations(_, _, _)
Invalidations(acts, i, s) ==
  IF i > Len(acts) THEN 0
  ELSE LET s2 == Step(acts[i], s) IN
       IF s2.err THEN 0
       ELSE (IF Invalidates(acts[i]) THEN 1 ELSE 0) + Invalidations(acts, i + 1, s2)

Init == /\ l = 1 /\ tid = -1 /\ mode = "none" /\ rules = <<>> /\ maxc = 0 /\ flag = FALSE
        /\ facts = <<>> /\ retracted = {} /\ complete = FALSE /\ cancelled = FALSE /\ cyc = 0
        /\ evald = {} /\ cands = {} /\ execd = FALSE /\ prevEvald = {} /\ prevCands = {}
        /\ pendErr = "" /\ lastExec = "" /\ pre = [f |-> <<>>, ret |-> {}, comp |-> FALSE] /\ done = TRUE /\ viol = {} /\ marks = <<>> /\ seen = {}
        /\ hOn = FALSE /\ hVars = {} /\ hUsed = 0 /\ hLimit = 1 /\ hFresh = FALSE

Begin == /\ Is("begin")
         /\ tid' = T.id /\ mode' = T.mode /\ rules' = T.rules /\ maxc' = T.max /\ flag' = T.flag
         /\ facts' = T.facts /\ retracted' = {} /\ complete' = FALSE /\ cancelled' = FALSE /\ cyc' = 0
         /\ evald' = {} /\ cands' = {} /\ execd' = FALSE /\ prevEvald' = {} /\ prevCands' = {}
         /\ pendErr' = "" /\ lastExec' = "" /\ pre' = [f |-> <<>>, ret |-> {}, comp |-> FALSE] /\ done' = FALSE
         /\ seen' = IF T.call > 0 THEN {"C08"} ELSE {}
         /\ marks' = IF T.call > 0 THEN [c \in DOMAIN marks \cup {"C08"} |-> (IF c \in DOMAIN marks THEN marks[c] ELSE 0) + (IF c = "C08" THEN 1 ELSE 0)]
                     ELSE marks
         /\ hOn' = (T.counted.k = "call") /\ hVars' = VarsIn(T.counted) /\ hUsed' = 0 /\ hLimit' = 1 /\ hFresh' = FALSE
         /\ UNCHANGED viol

\* a knowledge base that could not be built / instantiated / stored / loaded (C09, C12, C17 territory)
SetupFailed == /\ Is("setup-failed")
               /\ PrintT(<<"FLAG", "SETUP-" \o T.variant, T.id, l>>)
               /\ viol' = viol \cup {<<"SETUP-" \o T.variant, T.id, l>>}
               /\ UNCHANGED <<tid, mode, rules, maxc, flag, facts, retracted, complete, cancelled, cyc, evald,
                              cands, execd, prevEvald, prevCands, pendErr, lastExec, pre, done, marks, seen, hvars>>

CycleEv ==
  /\ Is("cycle")
  /\ Checks(<< <<mode = "exec" /\ ~done, "PROTO-cycle-outside-exec">>,
               <<pendErr = "", "C14-cycle-after-action-error">>,
               <<pendErr = "", "C03-cycle-after-incomplete-actions">>,      \* (the same statement, as C03 puts it)
               <<~complete, "C10-cycle-after-complete">>,
               <<T.n = cyc + 1, "C06-cycle-number">>,
               <<cyc = 0 \/ execd, "C06-cycle-without-exec">>,
               <<T.facts = facts, "C04-facts-at-cycle">> >>)
  /\ facts' = T.facts        \* resynchronise
  /\ prevEvald' = evald /\ prevCands' = cands
  /\ evald' = {} /\ cands' = {} /\ execd' = FALSE
  /\ Mark(IF hOn /\ hUsed >= 1 /\ ~hFresh /\ cyc >= 1 THEN {"C13"} ELSE {})
  \* the calls of an invalidating action list may have come before the invalidation: the new epoch counts from 0
  /\ IF hFresh THEN hUsed' = 0 /\ hLimit' = 1 /\ hFresh' = FALSE ELSE UNCHANGED <<hUsed, hLimit, hFresh>>
  /\ UNCHANGED <<tid, mode, rules, maxc, flag, retracted, complete, cancelled, cyc, pendErr, lastExec, pre, done, hOn, hVars>>

EvalEv ==
  /\ Is("eval")
  /\ LET r == T.r IN
     /\ Checks(<< <<mode = "exec" /\ ~done, "PROTO-eval-outside-exec">>,
                  <<~T.del, "C16-removed-rule-evaluated">>,
                  <<r \in Names, "PROTO-unknown-rule">>,
                  <<r \in Names => ~rules[r].del, "C16-removed-rule-evaluated">>,
                  <<r \notin retracted, "C10-retracted-rule-evaluated">>,
                  <<T.n = cyc + 1, "C06-eval-cycle-number">>,
                  <<r \notin evald, "C06-evaluated-twice">>,
                  <<~execd, "C03-eval-after-exec-in-cycle">>,
                  <<r \in Names => ~(flag /\ Broken(r)), "C14-failing-rule-not-reported">>,
                  <<r \in Names => (T.can => Truth(r)), IF r \in Names /\ Broken(r) THEN "C14-failing-rule-candidate" ELSE "C01-candidate-on-false-condition">>,
                  <<r \in Names => (Truth(r) => T.can), "C02-true-condition-not-candidate">>,
                  \* (as C01 puts it: a condition that cannot be evaluated on the current facts does not hold on them)
                  <<r \in Names => (T.can => ~Broken(r)), "C01-candidate-on-failing-condition">> >>)
     /\ evald' = evald \cup {r}
     /\ cands' = IF T.can THEN cands \cup {r} ELSE cands
     /\ Mark((IF r \in prevCands /\ ~T.can THEN {"C01"} ELSE {})
             \cup (IF r \in (prevEvald \ prevCands) /\ T.can THEN {"C02"} ELSE {})
             \cup (IF r \in Names /\ Broken(r) THEN {"C14"} ELSE {}))
  /\ UNCHANGED <<tid, mode, rules, maxc, flag, facts, retracted, complete, cancelled, cyc, execd,
                 prevEvald, prevCands, pendErr, lastExec, pre, done, hvars>>

ExecEv ==
  /\ Is("exec")
  /\ LET r == T.r
         known == r \in Names
         s == IF known /\ ~cancelled
              THEN RunActions(rules[r].a, 1, [f |-> facts, ret |-> retracted, comp |-> complete, err |-> FALSE])
              ELSE [f |-> facts, ret |-> retracted, comp |-> complete, err |-> FALSE]
         trueNow == {c \in Active : Truth(c)}
     IN
     /\ Checks(<< <<mode = "exec" /\ ~done, "PROTO-exec-outside-exec">>,
                  <<~T.del, "C16-removed-rule-fired">>,
                  <<known, "PROTO-unknown-rule">>,
                  <<pendErr = "", "C14-exec-after-action-error">>,
                  <<~complete, "C10-exec-after-complete">>,
                  <<~execd, "C03-two-execs-in-cycle">>,
                  <<T.n = cyc + 1, "C06-exec-cycle-number">>,
                  <<cyc < maxc, "C06-fired-beyond-maxcycle">>,
                  <<evald = Active, "C06-exec-before-all-evaluated">>,
                  \* (the same, as C10 puts it: a rule is out of the run only if an action of THIS call retracted it)
                  <<Active \subseteq evald, "C10-active-rule-not-evaluated">>,
                  <<r \in cands, "C06-exec-of-non-candidate">>,
                  <<known => ~rules[r].del /\ r \notin retracted, "C01-inactive-rule-fired">>,
                  <<known => Truth(r), "C01-fired-on-false-condition">>,
                  <<known => r \in MaxSal(trueNow), "C03-not-highest-salience">> >>)
     /\ facts' = s.f /\ retracted' = s.ret /\ complete' = s.comp
     /\ pendErr' = IF s.err THEN r ELSE ""
     /\ Mark((IF \E a, b \in trueNow : rules[a].sal # rules[b].sal THEN {"C03"} ELSE {})
             \cup (IF Cardinality(trueNow) >= 2 THEN {"C03tie"} ELSE {})
             \cup (IF (s.ret \cap Names) # (retracted \cap Names) THEN {"C10"} ELSE {})
             \cup (IF s.comp /\ ~complete THEN {"C10c"} ELSE {})
             \cup (IF s.err THEN {"C14a"} ELSE {})
             \cup (IF cancelled THEN {"C15x"} ELSE {}))
  /\ cyc' = cyc + 1 /\ execd' = TRUE /\ lastExec' = T.r /\ pre' = [f |-> facts, ret |-> retracted, comp |-> complete]
  /\ LET k == IF hOn /\ T.r \in Names /\ ~cancelled
               THEN Invalidations(rules[T.r].a, 1, [f |-> facts, ret |-> retracted, comp |-> complete, err |-> FALSE])
               ELSE 0
     IN IF k > 0 THEN hUsed' = 0 /\ hLimit' = k + (IF hUsed = 0 THEN 1 ELSE 0) /\ hFresh' = TRUE
                 ELSE UNCHANGED <<hUsed, hLimit, hFresh>>
  /\ UNCHANGED <<tid, mode, rules, maxc, flag, cancelled, evald, cands, prevEvald, prevCands, done, hOn, hVars>>

\* a real invocation of an instrumented fact method (an atom served from the memo produces no event)
CallEv == /\ Is("call")
          /\ IF hOn /\ T.m \in {"Heavy", "HeavyB", "HeavyV", "HeavyP"}
             THEN /\ hUsed' = hUsed + 1
                  /\ Check(hUsed + 1 <= hLimit, "C13-evaluated-again-without-invalidation")
             ELSE UNCHANGED <<hUsed, viol>>
          /\ UNCHANGED <<tid, mode, rules, maxc, flag, facts, retracted, complete, cancelled, cyc, evald, cands,
                         execd, prevEvald, prevCands, pendErr, lastExec, pre, done, marks, seen, hOn, hVars, hLimit, hFresh>>

CancelEv == /\ Is("cancel")
            /\ cancelled' = TRUE
            /\ Mark({"C15"})
            \* seen by the check at the start of RuleEntry.Execute: the rule announced last does not run
            /\ IF T.kind = "look:execute" /\ execd
               THEN facts' = pre.f /\ retracted' = pre.ret /\ complete' = pre.comp /\ pendErr' = ""
               ELSE UNCHANGED <<facts, retracted, complete, pendErr>>
            /\ UNCHANGED <<tid, mode, rules, maxc, flag, cyc, evald, cands, execd,
                           prevEvald, prevCands, lastExec, pre, done, viol, hvars>>

\* ---- return of Execute ----
Quiescent == evald = Active /\ ~\E r \in Active : Truth(r)
RetExec ==
  LET e == T.err
      anyBroken == \E r \in Active : Broken(r)
  IN Checks(<<
       <<e # "panic", "C14-panic-escaped">>,
       <<e # "hang", "C06-no-return">>,
       <<T.lsnok, "C06-listeners-disagree">>,
       \* the same call on a fresh instance with NO listener registered: where no tie was broken the run is deterministic,
       \* so it must end the same way with the same facts
       <<("facts0" \in DOMAIN T /\ "C03tie" \notin seen /\ ~cancelled) => (T.facts0 = T.facts /\ T.err0 = (IF e \in {"acterr", "evalerr"} THEN "ruleerr" ELSE e)), "C06-differs-without-listeners">>,
       <<T.facts = facts, IF cancelled THEN "C15-effects-after-cancel" ELSE IF pendErr # "" THEN "C14-effects-of-failed-rule"
                          ELSE IF complete THEN "C10-actions-around-complete" ELSE "C04-final-facts">>,
       <<pendErr # "" => (e = "acterr" /\ T.rule = pendErr), "C14-action-error-not-reported">>,
       <<e = "acterr" => (pendErr # "" \/ (cancelled /\ T.rule = lastExec)), "C14-spurious-action-error">>,
       <<e = "evalerr" => (flag /\ T.rule \in Active /\ T.rule \notin evald /\ Broken(T.rule)), "C14-spurious-evaluation-error">>,
       <<(e = "nil" /\ flag /\ ~complete /\ ~cancelled) => ~anyBroken, "C14-evaluation-error-not-returned">>,
       <<e = "ctx" => cancelled, "C15-context-error-without-cancel">>,
       \* (after a cancellation, with no failed action, what is returned is the context's error - or the truthful natural end below)
       <<(cancelled /\ pendErr = "") => e \notin {"acterr", "other"}, "C15-not-the-context-error">>,
       <<(cancelled /\ e = "nil") => (complete \/ Quiescent), "C15-nil-after-cancel-with-work-left">>,
       \* (a run may not end because the rule fired last retracted something: every other rule is unaffected)
       <<(e = "nil" /\ ~cancelled /\ lastExec \in Names /\ HasRetract(lastExec)) => (complete \/ Quiescent), "C10-retract-ended-the-run">>,
       <<(e = "nil" /\ ~cancelled) => (complete \/ Quiescent), "C02-returned-with-satisfied-rule">>,
       <<(e = "nil" /\ ~cancelled /\ ~complete) => Active \subseteq evald, "C10-active-rule-not-evaluated">>,
       <<(e = "nil" /\ complete /\ ~cancelled) => execd, "C10-complete-without-exec">>,
       \* (a cancellation that arrives after the engine's last look at the context races with the natural end
       \*  of the run: nil at quiescence and the cycle-limit error are then still truthful, no action was started)
       <<e = "max" => (~complete /\ cyc = maxc /\ evald = Active /\ \E r \in Active : Truth(r)), "C06-cycle-limit-error-unjustified">>,
       <<e \in {"nil", "max", "acterr", "evalerr", "ctx", "panic", "hang"}
            \/ (cancelled /\ e = "ctxeval"), "C06-unknown-error-class">> >>)

\* ---- return of FetchMatchingRules ----
IsNonIncreasing(s) == \A i \in 1..(Len(s) - 1) : s[i] >= s[i + 1]
RetFetch ==
  LET e == T.err
      want == {r \in Live : Truth(r)}
      got == {T.matched[i] : i \in DOMAIN T.matched}
      anyBroken == \E r \in Live : Broken(r)
  IN Checks(<<
       <<e # "panic", "C14-panic-escaped">>,
       <<e # "hang", "C06-no-return">>,
       <<T.facts = facts, "C11-fetch-changed-facts">>,
       <<(flag /\ anyBroken) => (e = "evalerr" /\ T.rule \in Live /\ Broken(T.rule)), "C11-evaluation-error-not-returned">>,
       <<~(flag /\ anyBroken) => e = "nil", "C11-spurious-error">>,
       <<e = "nil" => ~T.anydel, "C16-removed-rule-returned">>,
       <<e = "nil" => got \subseteq Names, "C11-unknown-rule-returned">>,
       <<e = "nil" => \A r \in got \cap Names : ~rules[r].del, "C11-removed-rule-returned">>,
       <<e = "nil" => got \subseteq want, IF \E r \in got \cap Live : Broken(r) THEN "C11-failing-rule-returned" ELSE "C11-unsatisfied-rule-returned">>,
       <<e = "nil" => want \subseteq got, "C11-satisfied-rule-missing">>,
       <<e = "nil" => Len(T.matched) = Cardinality(got), "C11-rule-returned-twice">>,
       <<e = "nil" => \A i \in DOMAIN T.matched : T.matched[i] \in Names => T.sal[i] = rules[T.matched[i]].sal, "C11-salience-changed">>,
       <<e = "nil" => IsNonIncreasing(T.sal), "C11-not-ordered-by-salience">> >>)

RetEv ==
  /\ Is("ret")
  /\ IF done THEN Flag("PROTO-ret-without-begin")
     ELSE IF mode = "fetch" THEN RetFetch ELSE RetExec
  /\ done' = TRUE
  /\ Mark({"RET-" \o T.err}
          \cup (IF mode = "exec" /\ T.err = "max" THEN {"C06"} ELSE {})
          \cup (IF mode = "exec" /\ T.err = "nil" /\ cyc > 0 THEN {"C06q"} ELSE {})
          \cup (IF mode = "fetch" /\ T.err = "nil" /\ Len(T.matched) >= 1
                   /\ \E r \in Live : ~Truth(r) THEN {"C11"} ELSE {})
          \cup (IF mode = "fetch" /\ Len(T.matched) >= 2 THEN {"C11o"} ELSE {}))
  /\ UNCHANGED <<tid, mode, rules, maxc, flag, facts, retracted, complete, cancelled, cyc, evald, cands, execd,
                 prevEvald, prevCands, pendErr, lastExec, pre, hvars>>

Next == Begin \/ SetupFailed \/ CycleEv \/ EvalEv \/ ExecEv \/ CallEv \/ CancelEv \/ RetEv
Spec == Init /\ [][Next]_vars

\* ---- acceptance: every line consumed; summary printed once at the end ----
Finished == l = Len(Trace) + 1
Summary == Finished => PrintT("SUMMARY " \o ToJson([lines |-> Len(Trace), flags |-> Cardinality(viol),
                                  marks |-> marks]))
Consumed == TLCGet("stats").diameter - 1 = Len(Trace)
=============================================================================
