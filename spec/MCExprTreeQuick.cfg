SPECIFICATION Spec
CONSTANTS
  Family = "tree"
  IntLeaves = {2, 3}
  BoolLeaves = {TRUE}
  OtherLeaves <- StrLeavesQuick
INVARIANTS Export
CHECK_DEADLOCK FALSE
