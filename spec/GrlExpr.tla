------------------------------- MODULE GrlExpr -------------------------------
(***************************************************************************)
(* Documented meaning of GRL expressions (C05, C18): grouping by the       *)
(* published precedence table with left associativity, typed evaluation    *)
(* with int-to-real promotion, real quotient, string concatenation,        *)
(* short-circuit logic, negation, and the denotation of number literals.   *)
(* TLC enumerates bounded families of expressions, keeps the well-typed    *)
(* ones and exports each with the value this module gives it; the harness  *)
(* prints the expression in several styles and runs it on the real engine. *)
(*                                                                         *)
(* Values are tagged: [t |-> "i", n] integers, [t |-> "r", n, d] reals as   *)
(* reduced dyadic rationals n/d (so float64 arithmetic on them is exact),  *)
(* [t |-> "b", v], [t |-> "s", s], and Err.                                 *)
(***************************************************************************)
EXTENDS Integers, Sequences, FiniteSets, TLC, Json

Err == [t |-> "err"]
Skip == [t |-> "skip"]      \* outside the modelled family (division by zero, non-dyadic quotient): the case is dropped
I(n) == [t |-> "i", n |-> n]
B(v) == [t |-> "b", v |-> v]
S(v) == [t |-> "s", s |-> v]
Abs(a) == IF a < 0 THEN -a ELSE a
RECURSIVE Reduce(_, _)
Reduce(n, d) == IF d > 1 /\ n % 2 = 0 THEN Reduce(n \div 2, d \div 2) ELSE [t |-> "r", n |-> n, d |-> d]
R(n, d) == Reduce(n, d)                       \* d is a power of two
IsNum(v) == v.t \in {"i", "r"}
Num(v) == IF v.t = "i" THEN v.n ELSE v.n      \* numerator
Den(v) == IF v.t = "i" THEN 1 ELSE v.d
IsPow2(n) == n \in {1, 2, 4, 8, 16}

GoMod(a, b) == IF a >= 0 THEN a % Abs(b) ELSE -((-a) % Abs(b))
RECURSIVE BitAnd(_, _), BitOr(_, _)
BitAnd(a, b) == IF a = 0 \/ b = 0 THEN 0 ELSE IF a = -1 THEN b ELSE IF b = -1 THEN a
                ELSE (a % 2) * (b % 2) + 2 * BitAnd(a \div 2, b \div 2)
BitOr(a, b) == IF a = 0 THEN b ELSE IF b = 0 THEN a ELSE IF a = -1 \/ b = -1 THEN -1
               ELSE (IF (a % 2) + (b % 2) > 0 THEN 1 ELSE 0) + 2 * BitOr(a \div 2, b \div 2)

Arith == {"mul", "div", "mod", "add", "sub", "band", "bor"}
Compare == {"eq", "ne", "lt", "le", "gt", "ge"}
Logic == {"and", "or"}
Ops == Arith \cup Compare \cup Logic

\* value of  a op b  for evaluated operands (and / or are handled in Eval because they short-circuit)
Apply(op, a, b) ==
  IF a = Skip \/ b = Skip THEN Skip
  ELSE IF a = Err \/ b = Err THEN Err
  ELSE IF op = "add" /\ (a.t = "s" \/ b.t = "s") THEN
       (IF a.t = "s" /\ b.t = "s" THEN S(a.s \o b.s)
        ELSE IF a.t = "s" /\ b.t = "i" THEN S(a.s \o ToString(b.n))
        ELSE IF a.t = "i" /\ b.t = "s" THEN S(ToString(a.n) \o b.s)
        ELSE IF {a.t, b.t} \in {{"s", "r"}, {"s", "b"}} THEN Skip   \* the rendering of a real / boolean inside a string is not specified
        ELSE Err)
  ELSE IF op \in {"add", "sub", "mul", "div"} THEN
       (IF ~(IsNum(a) /\ IsNum(b)) THEN Err
        ELSE IF op = "div" THEN
             (IF ~IsPow2(Abs(Num(b))) THEN Skip      \* zero, or a quotient that is not dyadic: outside the family
              ELSE R((IF Num(b) < 0 THEN -1 ELSE 1) * Num(a) * Den(b), Den(a) * Abs(Num(b))))
        ELSE IF a.t = "i" /\ b.t = "i" THEN
             I(CASE op = "add" -> a.n + b.n [] op = "sub" -> a.n - b.n [] op = "mul" -> a.n * b.n)
        ELSE LET d == IF Den(a) > Den(b) THEN Den(a) ELSE Den(b)
                 x == Num(a) * (d \div Den(a))
                 y == Num(b) * (d \div Den(b))
             IN CASE op = "add" -> R(x + y, d) [] op = "sub" -> R(x - y, d) [] op = "mul" -> R(Num(a) * Num(b), Den(a) * Den(b)))
  ELSE IF op \in {"mod", "band", "bor"} THEN
       (IF ~(a.t = "i" /\ b.t = "i") THEN Err
        ELSE IF op = "mod" THEN (IF b.n = 0 THEN Err ELSE I(GoMod(a.n, b.n)))
        ELSE IF op = "band" THEN I(BitAnd(a.n, b.n)) ELSE I(BitOr(a.n, b.n)))
  ELSE IF op \in Compare THEN
       (IF IsNum(a) /\ IsNum(b) THEN
             LET x == Num(a) * Den(b)  y == Num(b) * Den(a) IN
             B(CASE op = "eq" -> x = y [] op = "ne" -> x # y [] op = "lt" -> x < y
                 [] op = "le" -> x <= y [] op = "gt" -> x > y [] op = "ge" -> x >= y)
        ELSE IF a.t = "b" /\ b.t = "b" /\ op \in {"eq", "ne"} THEN B(IF op = "eq" THEN a.v = b.v ELSE a.v # b.v)
        ELSE IF a.t = "s" /\ b.t = "s" /\ op \in {"eq", "ne"} THEN B(IF op = "eq" THEN a.s = b.s ELSE a.s # b.s)
        ELSE Err)
  ELSE Err

\* trees: leaves are values (or [t |-> "fail"]: an operand whose evaluation raises an error), [k |-> "not", e],
\* [k |-> "bin", op, l, r]
RECURSIVE Eval(_)
Eval(e) ==
  IF "t" \in DOMAIN e THEN (IF e.t = "fail" THEN Err ELSE IF e.t = "touch" THEN B(TRUE) ELSE e)
  ELSE IF e.k = "not" THEN LET v == Eval(e.e) IN IF v = Skip THEN Skip ELSE IF v # Err /\ v.t = "b" THEN B(~v.v) ELSE Err
  ELSE IF e.op = "and" THEN
       LET a == Eval(e.l) IN
       IF a = Skip THEN Skip ELSE IF a = Err \/ a.t # "b" THEN Err ELSE IF ~a.v THEN B(FALSE)
       ELSE LET b == Eval(e.r) IN IF b = Skip THEN Skip ELSE IF b = Err \/ b.t # "b" THEN Err ELSE b
  ELSE IF e.op = "or" THEN
       LET a == Eval(e.l) IN
       IF a = Skip THEN Skip ELSE IF a = Err \/ a.t # "b" THEN Err ELSE IF a.v THEN B(TRUE)
       ELSE LET b == Eval(e.r) IN IF b = Skip THEN Skip ELSE IF b = Err \/ b.t # "b" THEN Err ELSE b
  ELSE Apply(e.op, Eval(e.l), Eval(e.r))

\* static well-typedness (so that a short-circuited ill-typed operand does not slip in): every operator gets
\* operands of the kinds the documentation gives it
RECURSIVE TypeOf(_)
TypeOf(e) ==
  IF "t" \in DOMAIN e THEN (IF e.t = "fail" THEN "i" ELSE IF e.t = "touch" THEN "b" ELSE e.t)
  ELSE IF e.k = "not" THEN (IF TypeOf(e.e) = "b" THEN "b" ELSE "bad")
  ELSE LET a == TypeOf(e.l)  b == TypeOf(e.r) IN
       IF a = "bad" \/ b = "bad" THEN "bad"
       ELSE IF e.op \in Logic THEN (IF a = "b" /\ b = "b" THEN "b" ELSE "bad")
       ELSE IF e.op = "add" /\ (a = "s" \/ b = "s") THEN (IF {a, b} \subseteq {"s", "i"} THEN "s" ELSE "bad")
       ELSE IF e.op = "div" THEN (IF {a, b} \subseteq {"i", "r"} THEN "r" ELSE "bad")
       ELSE IF e.op \in {"add", "sub", "mul"} THEN (IF {a, b} \subseteq {"i", "r"} THEN (IF "r" \in {a, b} THEN "r" ELSE "i") ELSE "bad")
       ELSE IF e.op \in {"mod", "band", "bor"} THEN (IF a = "i" /\ b = "i" THEN "i" ELSE "bad")
       ELSE IF e.op \in Compare THEN
            (IF {a, b} \subseteq {"i", "r"} THEN "b"
             ELSE IF a = b /\ a \in {"b", "s"} /\ e.op \in {"eq", "ne"} THEN "b" ELSE "bad")
       ELSE "bad"

\* which side-effecting operands ([t |-> "touch", id]: a fact method that records its call and yields true) are really
\* evaluated: && and || evaluate their right operand only when the left one does not decide; every other operator
\* evaluates both operands
RECURSIVE Touched(_)
Touched(e) ==
  IF "t" \in DOMAIN e THEN (IF e.t = "touch" THEN {e.id} ELSE {})
  ELSE IF e.k = "not" THEN Touched(e.e)
  ELSE IF e.op \in {"and", "or"} THEN
       LET a == Eval(e.l) IN
       Touched(e.l) \cup (IF a # Err /\ a # Skip /\ a.t = "b" /\ a.v = (e.op = "and") THEN Touched(e.r) ELSE {})
  ELSE Touched(e.l) \cup Touched(e.r)

\* ---- grouping of a flat token sequence  <<operand, op, operand, op, ...>>  (op tokens: [k |-> "op", v |-> name]) ----
PubPrec == [o \in Ops |-> CASE o \in {"mul", "div", "mod", "band"} -> 5 [] o \in {"add", "sub", "bor"} -> 4
                            [] o \in Compare -> 3 [] o = "and" -> 2 [] o = "or" -> 1]
\* the generated parser groups & with + - | (known finding): used only to recognise that one deviation
ImplPrec == [PubPrec EXCEPT !["band"] = 4]
RECURSIVE Climb(_, _, _, _, _)
Climb(P, toks, lhs, j, minp) ==
  IF j > Len(toks) \/ P[toks[j].v] < minp THEN [t |-> lhs, i |-> j]
  ELSE LET op == toks[j].v
           r == Climb(P, toks, toks[j + 1], j + 2, P[op] + 1)       \* left associative
       IN Climb(P, toks, [k |-> "bin", op |-> op, l |-> lhs, r |-> r.t], r.i, minp)
Group(P, toks) == Climb(P, toks, toks[1], 2, 1).t

\* ---- number literals: components -> exact denotation m * 10^e10 * 2^e2 ----
RECURSIVE DigitsVal(_, _, _)
DigitsVal(ds, base, acc) == IF ds = <<>> THEN acc ELSE DigitsVal(Tail(ds), base, acc * base + Head(ds))
\* lit = [base, neg, int (digits), frac (digits), dot, exp ("none" -> [has |-> FALSE]) ...]
LitValue(l) ==
  LET sign == IF l.neg THEN -1 ELSE 1 IN
  IF ~l.dot /\ ~l.exp.has
  THEN [t |-> "i", n |-> sign * DigitsVal(l.int, l.base, 0)]
  ELSE LET m == DigitsVal(l.int \o l.frac, l.base, 0)
           shift == Len(l.frac)
           e == IF l.exp.has THEN l.exp.v ELSE 0
       IN IF l.base = 10 THEN [t |-> "lit", m |-> sign * m, e10 |-> e - shift, e2 |-> 0]
          ELSE [t |-> "lit", m |-> sign * m, e10 |-> 0, e2 |-> e - 4 * shift]
=============================================================================
