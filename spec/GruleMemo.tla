------------------------------ MODULE GruleMemo ------------------------------
(***************************************************************************)
(* Layer M: the memoizing working memory, shaped like the implementation,   *)
(* in the TAINT abstraction - values are abstracted away, what is kept is  *)
(* which locations a remembered node was computed from and which were      *)
(* written since.  One node per distinct expression text (snapshot), an    *)
(* Evaluated flag per node, invalidation after an assignment by SYNTACTIC  *)
(* CONTAINMENT of the assigned variable in the node (IndexVariables /      *)
(* ResetVariable), no invalidation otherwise.  The truth of a recomputed   *)
(* atom is chosen nondeterministically in every cycle, which over-         *)
(* approximates every store and every constant, so the state space is the  *)
(* space of DEPENDENCY PATTERNS: (condition shape over the path kinds) x   *)
(* (assignment target x right-hand side that reads a path or not) x        *)
(* selector value x both evaluation orders.                                *)
(*                                                                         *)
(* MemoSound - a dirty memo is never USED - is the design-level statement  *)
(* of C01 / C02 (refinement M => A) and its dual, a clean memo is not      *)
(* recomputed, of C13.  FixTop = FALSE is the pinned tree (no reset key    *)
(* for top-level targets: violated, repaired by fix 9894894);              *)
(* AllowAlias = TRUE admits one container addressed through two selector   *)
(* expressions (violated: the recorded known finding).                     *)
(* The enumerated patterns are exported and instantiated as concrete rule  *)
(* sets by the harness (pattern-traces), whose runs the monitor validates. *)
(***************************************************************************)
EXTENDS Integers, Sequences, FiniteSets, TLC, Json
CONSTANTS FixTop, AllowAlias,
          WithErr,  \* TRUE: the reader's condition also reads F.Arr[F.I + 1], whose evaluation FAILS (index out of range) when I = 1:
                    \* a condition that evaluated well can fail after the writer ran, and the other way round
          Ext       \* FALSE: the base patterns (the writer only assigns); TRUE: the writer's action list also calls Complete() or
                    \* Retract(itself) before the assignment and / or re-reads the reader's condition after it

Paths == {"N","X","I","A0","AI"}            \* variable nodes usable in expressions and as assignment targets
RPaths == IF WithErr THEN Paths \cup {"AJ"} ELSE Paths      \* ... and in the reader's condition
Locs  == {"N","X","I","A0","A1","Y"}         \* memory locations
\* variable nodes syntactically contained in a path's snapshot
VarsOf(p) == CASE p = "AI" -> {"AI","A","I","F"}
               [] p = "AJ" -> {"AJ","A","I","F"}
               [] p = "A0" -> {"A0","A","F"}
               [] p = "N"  -> {"N"}
               [] OTHER    -> {p,"F"}
\* locations read when the path is evaluated, given selector value i
ReadLocs(p, i) == CASE p = "AI" -> {"I", IF i = 0 THEN "A0" ELSE "A1"}
                    [] p = "AJ" -> (IF i = 0 THEN {"I", "A1"} ELSE {"I"})
                    [] OTHER -> {p}
FailsAt(p, i) == p = "AJ" /\ i = 1
\* location written when the path is assigned
WLoc(p, i) == CASE p = "AI" -> (IF i = 0 THEN "A0" ELSE "A1") [] OTHER -> p

Atom == {[k |-> "a", p |-> p] : p \in Paths}
RAtom == {[k |-> "a", p |-> p] : p \in RPaths}
AllConds == RAtom \cup {[k |-> o, l |-> a, r |-> b] : o \in {"and","or"}, a \in RAtom, b \in RAtom}
              \cup {[k |-> "not", l |-> a] : a \in RAtom}
RECURSIVE Subs(_), EVars(_)
Subs(e) == CASE e.k = "a" -> {e} [] e.k = "not" -> {e} \cup Subs(e.l) [] OTHER -> {e} \cup Subs(e.l) \cup Subs(e.r)
EVars(e) == CASE e.k = "a" -> VarsOf(e.p) [] e.k = "not" -> EVars(e.l) [] OTHER -> EVars(e.l) \cup EVars(e.r)

\* rhs: "c" = constant, or a path that is read
Rhs == {"c","X","AI"}
\* ctl: a control call placed before the assignment; post: a further action  F.C = <the reader's condition>  after it
Writer == IF ~Ext THEN [w : Atom, t : Paths, rhs : Rhs, ctl : {"none"}, post : {FALSE}]
          ELSE {x \in [w : {[k |-> "a", p |-> "X"]}, t : Paths, rhs : Rhs, ctl : {"none", "complete", "retract"}, post : BOOLEAN] :
                  x.ctl # "none" \/ x.post}
Reader == [w : IF WithErr THEN {c \in AllConds : \E a \in Subs(c) : a.k = "a" /\ a.p = "AJ"} ELSE AllConds]

VARIABLES W, R, sel, memo, dirty, bad, cyc, wRet, ended
vars == <<W, R, sel, memo, dirty, bad, cyc, wRet, ended>>

RhsNode(r) == IF r = "c" THEN {} ELSE {[k |-> "a", p |-> r]}
Nodes == Subs(W.w) \cup Subs(R.w) \cup RhsNode(W.rhs)
AtomsIn == {n \in Nodes : n.k = "a"}

\* memoized evaluation; tr gives the from-scratch truth of each atom now.
\* returns [v, m, d, bad]: truth, memo', dirty', whether a dirty memo was *used*
RECURSIVE ME(_, _, _, _, _, _)
\* i: the selector value now.  e (in the result): the evaluation FAILED; a failed node is not remembered, and a failure of
\* an operand is the failure of the whole node (no short circuit past an error)
ME(e, tr, m, d, b, i) ==
  LET Failed(x) == [v |-> FALSE, m |-> x.m, d |-> x.d, b |-> x.b, e |-> TRUE] IN
  IF m[e] # "u" THEN [v |-> (m[e] = "t"), m |-> m, d |-> d, b |-> b \/ d[e], e |-> FALSE]
  ELSE CASE e.k = "a" -> IF FailsAt(e.p, i) THEN [v |-> FALSE, m |-> m, d |-> d, b |-> b, e |-> TRUE]
                         ELSE [v |-> tr[e], m |-> [m EXCEPT ![e] = IF tr[e] THEN "t" ELSE "f"], d |-> [d EXCEPT ![e] = FALSE], b |-> b, e |-> FALSE]
    [] e.k = "not" -> LET L == ME(e.l, tr, m, d, b, i) IN
         IF L.e THEN Failed(L)
         ELSE [v |-> ~L.v, m |-> [L.m EXCEPT ![e] = IF ~L.v THEN "t" ELSE "f"], d |-> [L.d EXCEPT ![e] = FALSE], b |-> L.b, e |-> FALSE]
    [] e.k = "and" -> LET L == ME(e.l, tr, m, d, b, i) IN
         IF L.e THEN Failed(L)
         ELSE IF ~L.v THEN [v |-> FALSE, m |-> [L.m EXCEPT ![e] = "f"], d |-> [L.d EXCEPT ![e] = FALSE], b |-> L.b, e |-> FALSE]
         ELSE LET Rr == ME(e.r, tr, L.m, L.d, L.b, i) IN
           IF Rr.e THEN Failed(Rr)
           ELSE [v |-> Rr.v, m |-> [Rr.m EXCEPT ![e] = IF Rr.v THEN "t" ELSE "f"], d |-> [Rr.d EXCEPT ![e] = FALSE], b |-> Rr.b, e |-> FALSE]
    [] e.k = "or" -> LET L == ME(e.l, tr, m, d, b, i) IN
         IF L.e THEN Failed(L)
         ELSE IF L.v THEN [v |-> TRUE, m |-> [L.m EXCEPT ![e] = "t"], d |-> [L.d EXCEPT ![e] = FALSE], b |-> L.b, e |-> FALSE]
         ELSE LET Rr == ME(e.r, tr, L.m, L.d, L.b, i) IN
           IF Rr.e THEN Failed(Rr)
           ELSE [v |-> Rr.v, m |-> [Rr.m EXCEPT ![e] = IF Rr.v THEN "t" ELSE "f"], d |-> [Rr.d EXCEPT ![e] = FALSE], b |-> Rr.b, e |-> FALSE]

\* NB: a compound node computed from a *dirty but used* child inherits the problem; flagged at the child.

NLocs(n, i) == UNION {ReadLocs(a.p, i) : a \in {x \in Subs(n) : x.k = "a"}}

ResetKey(t) == CASE t = "N" -> (IF FixTop THEN "N" ELSE "none")
                 [] t \in {"A0","AI"} -> t
                 [] OTHER -> t

UsesPath(e, p) == \E a \in Subs(e) : a.k = "a" /\ a.p = p
Aliasing(w, r) == LET ps == {p \in Paths : UsesPath(w.w, p) \/ UsesPath(r.w, p) \/ w.t = p \/ w.rhs = p} IN {"A0", "AI"} \subseteq ps
Init == /\ W \in Writer /\ R \in Reader /\ sel \in {0,1}
        /\ (AllowAlias \/ ~Aliasing(W, R))
        /\ memo = [n \in Nodes |-> "u"] /\ dirty = [n \in Nodes |-> FALSE]
        /\ bad = FALSE /\ cyc = 0 /\ wRet = FALSE /\ ended = FALSE

Cycle(tr, tr2, wFirst, newSel) ==
  LET same == [v |-> FALSE, m |-> memo, d |-> dirty, b |-> FALSE]
      \* a retracted writer is not evaluated any more
      E1 == IF wRet THEN ME(R.w, tr, memo, dirty, FALSE, sel)
            ELSE IF wFirst THEN ME(W.w, tr, memo, dirty, FALSE, sel) ELSE ME(R.w, tr, memo, dirty, FALSE, sel)
      E2 == IF wRet THEN E1
            ELSE IF wFirst THEN ME(R.w, tr, E1.m, E1.d, E1.b, sel) ELSE ME(W.w, tr, E1.m, E1.d, E1.b, sel)
      wCan == ~wRet /\ (IF wFirst THEN E1.v /\ ~E1.e ELSE E2.v /\ ~E2.e)        \* a rule whose condition failed is no candidate
  IN /\ cyc' = cyc + 1
     /\ IF wCan
        THEN \* fire writer: evaluate rhs (memoized), write target, dirty readers, reset by containment
          LET E3 == IF W.rhs = "c" THEN E2 ELSE ME([k |-> "a", p |-> W.rhs], tr, E2.m, E2.d, E2.b, sel)
              loc == WLoc(W.t, sel)
              s2  == IF W.t = "I" THEN newSel ELSE sel
              d2  == [n \in Nodes |-> E3.d[n] \/ (E3.m[n] # "u" /\ loc \in NLocs(n, sel))]
              m2  == [n \in Nodes |-> IF ResetKey(W.t) \in EVars(n) THEN "u" ELSE E3.m[n]]
              \* the further action reads the reader's condition through the same memo; atoms that do not read the written
              \* location keep their truth
              okTr2 == \A a \in AtomsIn : (loc \notin ReadLocs(a.p, s2) /\ (W.t # "I" \/ a.p \notin {"AI", "AJ"})) => tr2[a] = tr[a]
              E4  == IF W.post THEN ME(R.w, tr2, m2, d2, E3.b, s2) ELSE [v |-> FALSE, m |-> m2, d |-> d2, b |-> E3.b]
          IN /\ (W.post => okTr2) /\ (~W.post => tr2 = tr)
             /\ memo' = E4.m /\ dirty' = E4.d /\ sel' = s2 /\ bad' = (bad \/ E4.b)
             /\ wRet' = (wRet \/ W.ctl = "retract") /\ ended' = (W.ctl = "complete")
        ELSE /\ tr2 = tr
             /\ memo' = E2.m /\ dirty' = E2.d /\ sel' = sel /\ bad' = (bad \/ E2.b) /\ UNCHANGED <<wRet, ended>>
     /\ UNCHANGED <<W, R>>

Next == cyc < 3 /\ ~ended /\ \E tr \in [AtomsIn -> BOOLEAN], wf \in BOOLEAN, ns \in {0,1} :
                                    \E tr2 \in (IF W.post THEN [AtomsIn -> BOOLEAN] ELSE {tr}) : Cycle(tr, tr2, wf, ns)
Spec == Init /\ [][Next]_vars
MemoSound == ~bad

\* C13, dual statement: a node whose memo is set and clean is never recomputed - by construction of ME (a set memo is
\* returned without evaluation); what TLC checks here is that invalidation does not OVER-approximate: a reset node
\* was either dirty or contains the assigned variable
Export == cyc = 0 => PrintT("CASE " \o ToJson([fam |-> "pattern", w |-> W, r |-> R, sel |-> sel]))
=============================================================================
