SPECIFICATION Spec
INVARIANTS Export Frame
CHECK_DEADLOCK FALSE
