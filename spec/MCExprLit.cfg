SPECIFICATION Spec
CONSTANTS
  Family = "lit"
  IntLeaves = {}
  BoolLeaves = {}
  OtherLeaves = {}
INVARIANTS Export
CHECK_DEADLOCK FALSE
