----------------------------- MODULE GrlBuiltins -----------------------------
(***************************************************************************)
(* C05, built-in functions: the documented string functions (receiver is a *)
(* string: Len Compare Contains Count HasPrefix HasSuffix Index LastIndex   *)
(* Repeat Replace Split ToLower ToUpper Trim In), array / map Len, the     *)
(* numeric built-ins Max Min Abs Floor Ceil Round, and fact methods whose   *)
(* result depends on the ORDER of their arguments (fixed and variadic).    *)
(* Strings are sequences of code points over a small alphabet, so every    *)
(* function is definable exactly (Go's byte-wise semantics on ASCII);      *)
(* numbers are dyadic rationals <<n, d>>.  TLC enumerates the calls over   *)
(* all strings up to a length bound and exports the expected Go result.    *)
(* MatchString (regular expressions) is not modelled.                      *)
(***************************************************************************)
EXTENDS Integers, Sequences, FiniteSets, TLC, Json

CONSTANTS Alpha,      \* code points, e.g. {97, 98, 65, 32}   a b A space
          MaxLen      \* longest receiver / argument

RECURSIVE Seqs(_)
Seqs(n) == IF n = 0 THEN {<<>>} ELSE LET s == Seqs(n - 1) IN s \cup {Append(x, c) : x \in s, c \in Alpha}
Strs == Seqs(MaxLen)
Short == Seqs(1)

IsPrefix(p, s) == Len(p) <= Len(s) /\ SubSeq(s, 1, Len(p)) = p
IsSuffix(p, s) == Len(p) <= Len(s) /\ SubSeq(s, Len(s) - Len(p) + 1, Len(s)) = p
OccursAt(s, sub, i) == i + Len(sub) - 1 <= Len(s) /\ SubSeq(s, i, i + Len(sub) - 1) = sub        \* 1-based
Positions(s, sub) == {i \in 1..(Len(s) + 1) : OccursAt(s, sub, i)}
Contains(s, sub) == Positions(s, sub) # {}
Min(S) == CHOOSE x \in S : \A y \in S : x <= y
Max(S) == CHOOSE x \in S : \A y \in S : x >= y
Index(s, sub) == IF Contains(s, sub) THEN Min(Positions(s, sub)) - 1 ELSE -1               \* Go: 0-based
LastIndex(s, sub) == IF Contains(s, sub) THEN Max(Positions(s, sub)) - 1 ELSE -1
\* strings.Count: non-overlapping occurrences from the left; the empty string occurs len+1 times
RECURSIVE CountFrom(_, _, _)
CountFrom(s, sub, i) == IF i + Len(sub) - 1 > Len(s) THEN 0
                        ELSE IF OccursAt(s, sub, i) THEN 1 + CountFrom(s, sub, i + Len(sub)) ELSE CountFrom(s, sub, i + 1)
Count(s, sub) == IF sub = <<>> THEN Len(s) + 1 ELSE CountFrom(s, sub, 1)
\* strings.ReplaceAll: left to right, non-overlapping; an empty `old` matches before every character and at the end
RECURSIVE ReplaceFrom(_, _, _, _)
ReplaceFrom(s, old, new, i) == IF i > Len(s) THEN <<>>
                               ELSE IF OccursAt(s, old, i) THEN new \o ReplaceFrom(s, old, new, i + Len(old))
                               ELSE <<s[i]>> \o ReplaceFrom(s, old, new, i + 1)
RECURSIVE Interleave(_, _, _)
Interleave(s, new, i) == IF i > Len(s) THEN new ELSE new \o <<s[i]>> \o Interleave(s, new, i + 1)
Replace(s, old, new) == IF old = <<>> THEN Interleave(s, new, 1) ELSE ReplaceFrom(s, old, new, 1)
RECURSIVE Repeat(_, _)
Repeat(s, n) == IF n <= 0 THEN <<>> ELSE s \o Repeat(s, n - 1)
\* strings.Split(s, sep): number of pieces (the harness compares the pieces' count through .Len()); sep empty: one piece per character
SplitLen(s, sep) == IF sep = <<>> THEN Len(s) ELSE Count(s, sep) + 1
Upper(c) == IF c >= 97 /\ c <= 122 THEN c - 32 ELSE c
Lower(c) == IF c >= 65 /\ c <= 90 THEN c + 32 ELSE c
ToUpper(s) == [i \in DOMAIN s |-> Upper(s[i])]
ToLower(s) == [i \in DOMAIN s |-> Lower(s[i])]
RECURSIVE TrimLeft(_), TrimRight(_)
TrimLeft(s) == IF s # <<>> /\ Head(s) = 32 THEN TrimLeft(Tail(s)) ELSE s
TrimRight(s) == IF s # <<>> /\ s[Len(s)] = 32 THEN TrimRight(SubSeq(s, 1, Len(s) - 1)) ELSE s
Trim(s) == TrimRight(TrimLeft(s))
\* lexicographic byte order
RECURSIVE Cmp(_, _)
Cmp(a, b) == IF a = <<>> /\ b = <<>> THEN 0 ELSE IF a = <<>> THEN -1 ELSE IF b = <<>> THEN 1
             ELSE IF Head(a) < Head(b) THEN -1 ELSE IF Head(a) > Head(b) THEN 1 ELSE Cmp(Tail(a), Tail(b))

\* numbers: dyadic rationals
Q(n, d) == <<n, d>>
FloorQ(q) == q[1] \div q[2]                                       \* TLA+ \div floors
CeilQ(q) == -((-q[1]) \div q[2])
RoundQ(q) == IF q[1] >= 0 THEN (2 * q[1] + q[2]) \div (2 * q[2]) ELSE -((2 * (-q[1]) + q[2]) \div (2 * q[2]))   \* half away from zero
LessQ(a, b) == a[1] * b[2] < b[1] * a[2]
AbsQ(q) == IF q[1] < 0 THEN Q(-q[1], q[2]) ELSE q
Nums == {Q(0, 1), Q(3, 2), Q(-3, 2), Q(5, 2), Q(-5, 2), Q(2, 1), Q(-7, 4), Q(1, 2), Q(-1, 2), Q(7, 1)}
MaxQ(S) == CHOOSE x \in S : \A y \in S : ~LessQ(x, y)
MinQ(S) == CHOOSE x \in S : \A y \in S : ~LessQ(y, x)

VARIABLE case
SV(s) == [t |-> "s", cp |-> s]
IV(n) == [t |-> "i", n |-> n]
BV(b) == [t |-> "b", b |-> b]
RV(q) == [t |-> "r", n |-> q[1], d |-> q[2]]
Call(fn, recv, args, want) == case = [fam |-> "builtin", fn |-> fn, recv |-> recv, args |-> args, want |-> want]

CONSTANT Group        \* which family of calls this configuration enumerates
Init ==
  CASE Group = "str2" -> \E s \in Strs, a \in Strs :
         \/ Call("Contains", s, <<SV(a)>>, BV(Contains(s, a))) \/ Call("HasPrefix", s, <<SV(a)>>, BV(IsPrefix(a, s)))
         \/ Call("HasSuffix", s, <<SV(a)>>, BV(IsSuffix(a, s))) \/ Call("Index", s, <<SV(a)>>, IV(Index(s, a)))
         \/ Call("LastIndex", s, <<SV(a)>>, IV(LastIndex(s, a))) \/ Call("Count", s, <<SV(a)>>, IV(Count(s, a)))
         \/ Call("Compare", s, <<SV(a)>>, IV(Cmp(s, a))) \/ Call("SplitLen", s, <<SV(a)>>, IV(SplitLen(s, a)))
    [] Group = "str1" -> \E s \in Strs :
         \/ Call("Len", s, <<>>, IV(Len(s))) \/ Call("ToUpper", s, <<>>, SV(ToUpper(s))) \/ Call("ToLower", s, <<>>, SV(ToLower(s)))
         \/ Call("Trim", s, <<>>, SV(Trim(s))) \/ \E n \in 0..3 : Call("Repeat", s, <<IV(n)>>, SV(Repeat(s, n)))
    [] Group = "replace" -> \E s \in Strs, o \in Short \cup {<<97, 98>>}, n \in Short \cup {<<98, 97>>} :
         Call("Replace", s, <<SV(o), SV(n)>>, SV(Replace(s, o, n)))
    [] Group = "in" -> \E s \in Short \cup {<<97, 98>>}, a \in Short, b \in Short \cup {<<97, 98>>}, c \in Short :
         \/ Call("In", s, <<SV(a), SV(b), SV(c)>>, BV(s \in {a, b, c})) \/ Call("In", s, <<SV(a), SV(b)>>, BV(s \in {a, b}))
         \/ Call("In", s, <<SV(a)>>, BV(s = a)) \/ Call("In", s, <<>>, BV(FALSE))
    [] Group = "num" ->
         \/ \E q \in Nums : \/ Call("Abs", <<>>, <<RV(q)>>, RV(AbsQ(q))) \/ Call("Floor", <<>>, <<RV(q)>>, RV(Q(FloorQ(q), 1)))
                            \/ Call("Ceil", <<>>, <<RV(q)>>, RV(Q(CeilQ(q), 1))) \/ Call("Round", <<>>, <<RV(q)>>, RV(Q(RoundQ(q), 1)))
         \/ \E a \in Nums, b \in Nums : \/ Call("Max", <<>>, <<RV(a), RV(b)>>, RV(MaxQ({a, b}))) \/ Call("Min", <<>>, <<RV(a), RV(b)>>, RV(MinQ({a, b})))
         \/ \E a \in Nums, b \in Nums, c \in Nums : \/ Call("Max", <<>>, <<RV(a), RV(b), RV(c)>>, RV(MaxQ({a, b, c})))
                                                   \/ Call("Min", <<>>, <<RV(a), RV(b), RV(c)>>, RV(MinQ({a, b, c})))
    [] Group = "order" ->      \* fact methods: result depends on argument order
         \/ \E a \in 0..3, b \in 0..3 : Call("Sub2", <<>>, <<IV(a), IV(b)>>, IV(a - b))
         \/ \E a \in 0..3, b \in 0..3, c \in 0..3 : \/ Call("Weighted", <<>>, <<IV(a), IV(b), IV(c)>>, IV(a + 2 * b + 3 * c))
                                                    \/ Call("Weighted", <<>>, <<IV(a), IV(b)>>, IV(a + 2 * b))
         \/ \E a \in Short, b \in Short, c \in Short : Call("Cat", <<>>, <<SV(a), SV(b), SV(c)>>, SV(a \o b \o c))
         \* a variadic part may be empty or hold one argument; Lead(a, rest...) = 10 a + sum of rest has a fixed parameter before it
         \/ Call("Weighted", <<>>, <<>>, IV(0)) \/ Call("Cat", <<>>, <<>>, SV(<<>>))
         \/ \E a \in 0..3 : Call("Weighted", <<>>, <<IV(a)>>, IV(a)) \/ Call("Lead", <<>>, <<IV(a)>>, IV(10 * a))
         \/ \E a \in Short : Call("Cat", <<>>, <<SV(a)>>, SV(a))
         \/ \E a \in 0..3, b \in 0..3 : Call("Lead", <<>>, <<IV(a), IV(b)>>, IV(10 * a + b))
         \/ \E a \in 0..3, b \in 0..3, c \in 0..3 : Call("Lead", <<>>, <<IV(a), IV(b), IV(c)>>, IV(10 * a + b + c))
         \/ \E a \in 0..3, s \in Short, b \in BOOLEAN : Call("Mixed", <<>>, <<IV(a), SV(s), BV(b)>>, IV(a * 100 + Len(s) * 10 + (IF b THEN 1 ELSE 0)))
Next == UNCHANGED case
Spec == Init /\ [][Next]_case
Export == PrintT("CASE " \o ToJson(case))
=============================================================================
