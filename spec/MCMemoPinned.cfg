SPECIFICATION Spec
CONSTANTS
  FixTop = FALSE
  AllowAlias = FALSE
INVARIANTS MemoSound
CHECK_DEADLOCK FALSE
