SPECIFICATION Spec
CONSTANTS
  WithErr = FALSE
  Ext = FALSE
  FixTop = FALSE
  AllowAlias = FALSE
INVARIANTS MemoSound
CHECK_DEADLOCK FALSE
