------------------------------- MODULE MCExpr -------------------------------
(* Bounded families of expressions for C05: every member that is well typed and has a value is exported with the  *)
(* value GrlExpr gives it (one TLC state = one case).                                                             *)
EXTENDS GrlExpr

CONSTANTS Family,     \* "flat2" | "flat3" | "tree" | "lit"
          IntLeaves, BoolLeaves, OtherLeaves    \* operand values of the family

VARIABLE case
Op(o) == [k |-> "op", v |-> o]
Leaves == {I(n) : n \in IntLeaves} \cup {B(b) : b \in BoolLeaves} \cup OtherLeaves

\* ---- flat sequences: grouping is decided by the precedence table alone ----
FlatCase(toks) ==
  LET tree == Group(PubPrec, toks)
      impl == Group(ImplPrec, toks)
  IN /\ TypeOf(tree) # "bad" /\ TypeOf(impl) # "bad"
     /\ Eval(tree) \notin {Err, Skip} /\ Eval(impl) # Skip
     /\ case = [fam |-> "flat", toks |-> toks, tree |-> tree, want |-> Eval(tree),
                implTree |-> impl, implWant |-> Eval(impl), amp |-> tree # impl]
Flat2 == \E a \in Leaves, b \in Leaves, c \in Leaves, o1 \in Ops, o2 \in Ops : FlatCase(<<a, Op(o1), b, Op(o2), c>>)
Flat3 == \E a \in Leaves, b \in Leaves, c \in Leaves, d \in Leaves, o1 \in Ops, o2 \in Ops, o3 \in Ops :
            FlatCase(<<a, Op(o1), b, Op(o2), c, Op(o3), d>>)

\* ---- trees with negation, parenthesised sub-expressions and failing operands (short circuit) ----
Fail == [t |-> "fail"]
Bin(o, a, b) == [k |-> "bin", op |-> o, l |-> a, r |-> b]
Not(e) == [k |-> "not", e |-> e]
Inner == Leaves \cup {Fail} \cup {Not(x) : x \in {B(b) : b \in BoolLeaves}}
Level1 == Inner \cup {Bin(o, a, b) : o \in Ops, a \in Inner, b \in Inner}
Tree == \E o \in Ops, a \in Level1, b \in Level1, na \in BOOLEAN, nb \in BOOLEAN :
          LET l == IF na THEN Not(a) ELSE a
              r == IF nb THEN Not(b) ELSE b
              e == Bin(o, l, r)
          IN /\ TypeOf(e) # "bad" /\ Eval(e) # Skip
             /\ case = [fam |-> "tree", tree |-> e, want |-> Eval(e), typ |-> TypeOf(e)]

\* ---- short circuit made observable: operands that record their evaluation ----
T1 == [t |-> "touch", id |-> 1]
T2 == [t |-> "touch", id |-> 2]
TX == {B(TRUE), B(FALSE), Fail, T1, T2}
TL1 == TX \cup {Bin(o, a, b) : o \in {"and", "or"}, a \in TX, b \in TX} \cup {Not(T1), Not(T2)}
TouchCase == \E o \in {"and", "or", "eq"}, a \in TL1, b \in TL1 :
               LET e == Bin(o, a, b) IN
               /\ TypeOf(e) # "bad" /\ Touched(e) \cup Touched(a) \cup Touched(b) # {}
               /\ case = [fam |-> "touch", tree |-> e, want |-> Eval(e), typ |-> "b", touched |-> Touched(e)]

\* ---- string literals: escapes denote bytes (\x, octal) or code points (\u, encoded as UTF-8) ----
UTF8(cp) == IF cp < 128 THEN <<cp>>
            ELSE IF cp < 2048 THEN <<192 + (cp \div 64), 128 + (cp % 64)>>
            ELSE <<224 + (cp \div 4096), 128 + ((cp \div 64) % 64), 128 + (cp % 64)>>
Pieces == {[k |-> "lit", c |-> 97], [k |-> "lit", c |-> 32], [k |-> "n"], [k |-> "t"], [k |-> "bs"], [k |-> "q"],
           [k |-> "hex", c |-> 65], [k |-> "hex", c |-> 233], [k |-> "hex", c |-> 255], [k |-> "oct", c |-> 65], [k |-> "oct", c |-> 233],
           [k |-> "u", c |-> 65], [k |-> "u", c |-> 233], [k |-> "u", c |-> 8364]}
Bytes(p) == CASE p.k = "lit" -> <<p.c>> [] p.k = "n" -> <<10>> [] p.k = "t" -> <<9>> [] p.k = "bs" -> <<92>>
              [] p.k = "q" -> <<0>>      \* the quote character of the literal's own style: filled in below
              [] p.k \in {"hex", "oct"} -> <<p.c>> [] p.k = "u" -> UTF8(p.c)
QuoteByte(style) == IF style = "dq" THEN 34 ELSE 39
RECURSIVE AllBytes(_, _)
AllBytes(ps, style) == IF ps = <<>> THEN <<>>
                       ELSE (IF Head(ps).k = "q" THEN <<QuoteByte(style)>> ELSE Bytes(Head(ps))) \o AllBytes(Tail(ps), style)
StrLitCase == \E style \in {"dq", "sq"}, a \in Pieces, b \in Pieces, c \in Pieces \cup {[k |-> "none"]} :
                LET ps == IF c.k = "none" THEN <<a, b>> ELSE <<a, b, c>> IN
                case = [fam |-> "strlit", style |-> style, pieces |-> ps, want |-> [t |-> "bytes", cp |-> AllBytes(ps, style)]]

\* ---- number literals ----
NoExp == [has |-> FALSE, v |-> 0]
Exp(v) == [has |-> TRUE, v |-> v]
Lit(base, neg, int, frac, dot, exp) == [base |-> base, neg |-> neg, int |-> int, frac |-> frac, dot |-> dot, exp |-> exp]
IntDigits10 == {<<0>>, <<7>>, <<1, 2, 3>>, <<3, 4, 5, 9, 2>>, <<4, 7, 2, 3, 4>>, <<9, 0, 7>>}
OctDigits == {<<0, 1>>, <<0, 7>>, <<0, 1, 0>>, <<0, 1, 7>>, <<0, 3, 4>>, <<0, 4, 5>>, <<0, 7, 7, 7>>}
HexDigits == {<<1>>, <<15>>, <<1, 0>>, <<1, 15>>, <<15, 15, 0, 0>>, <<1, 2>>, <<0, 0, 10, 11, 12, 13>>, <<8, 9, 0, 10, 11, 12>>}
Fracs == {<<>>, <<2, 5>>, <<4, 0>>, <<7, 1, 8, 2>>, <<5>>}
Lits == {Lit(10, n, d, <<>>, FALSE, NoExp) : n \in BOOLEAN, d \in IntDigits10}
        \cup {Lit(8, n, d, <<>>, FALSE, NoExp) : n \in BOOLEAN, d \in OctDigits}
        \cup {Lit(16, n, d, <<>>, FALSE, NoExp) : n \in BOOLEAN, d \in HexDigits}
        \cup {Lit(10, n, d, f, TRUE, e) : n \in BOOLEAN, d \in IntDigits10 \cup {<<>>, <<0, 7, 2>>}, f \in Fracs,
                                            e \in {NoExp, Exp(0), Exp(6), Exp(-11), Exp(5)}}
        \cup {Lit(10, n, d, <<>>, FALSE, e) : n \in BOOLEAN, d \in IntDigits10, e \in {Exp(6), Exp(-2), Exp(0)}}
        \cup {Lit(16, n, d, f, dot, e) : n \in BOOLEAN, d \in {<<1>>, <<2>>, <<1, 15, 15, 15>>, <<>>, <<1, 5>>}, f \in {<<>>, <<15>>, <<8>>},
                                          dot \in BOOLEAN, e \in {Exp(-2), Exp(10), Exp(0), Exp(-16)}}
LitCase == \E l \in Lits :
             /\ (l.int # <<>> \/ l.frac # <<>>) /\ (l.frac # <<>> => l.dot)
             /\ case = [fam |-> "lit", lit |-> l, want |-> LitValue(l)]

StrLeaves == {S("a"), S("b")}
StrLeavesQuick == {S("a")}
Init == CASE Family = "flat2" -> Flat2 [] Family = "flat3" -> Flat3 [] Family = "tree" -> Tree [] Family = "lit" -> LitCase
          [] Family = "touch" -> TouchCase [] Family = "strlit" -> StrLitCase
Next == UNCHANGED case
Spec == Init /\ [][Next]_case

\* internal theorem: the printer/grouper pair is consistent - fully parenthesising the grouped tree and grouping the
\* flat sequence agree on the value, and the implementation's grouping differs only when & is involved
AmpOnly == (case.fam = "flat" /\ case.amp) => \E i \in DOMAIN case.toks : case.toks[i] = Op("band")
Export == PrintT("CASE " \o ToJson(case))
=============================================================================
