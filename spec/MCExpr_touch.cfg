SPECIFICATION Spec
CONSTANTS
  Family = "touch"
  IntLeaves = {}
  BoolLeaves = {}
  OtherLeaves = {}
INVARIANTS Export
CHECK_DEADLOCK FALSE
