SPECIFICATION Spec
CONSTANTS
  Alpha = {97, 98, 65, 32}
  MaxLen = 3
  Group = "str2"
INVARIANT Export
CHECK_DEADLOCK FALSE
