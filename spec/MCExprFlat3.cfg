SPECIFICATION Spec
CONSTANTS
  Family = "flat3"
  IntLeaves = {2, 3}
  BoolLeaves = {TRUE}
  OtherLeaves = {}
INVARIANTS Export AmpOnly
CHECK_DEADLOCK FALSE
