SPECIFICATION Spec
CONSTANTS
  WithErr = TRUE
  Ext = FALSE
  FixTop = TRUE
  AllowAlias = FALSE
INVARIANTS MemoSound Export
CHECK_DEADLOCK FALSE
