SPECIFICATION FairSpec
CONSTANTS
  Programs <- MCProgramsSmall
  FactStates <- MCFacts
  MaxCycles = {0, 1, 2}
  Flags = {TRUE, FALSE}
  Modes = {"exec", "fetch"}
  MaxCalls = 1
  CanCancel = FALSE
PROPERTIES Terminates
CHECK_DEADLOCK FALSE
