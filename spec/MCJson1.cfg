SPECIFICATION Spec
CONSTANT Depth = 1
INVARIANT Export
CHECK_DEADLOCK FALSE
