SPECIFICATION Spec
CONSTANT Pool = TRUE
INVARIANTS Export Distinguishable
CHECK_DEADLOCK FALSE
