------------------------------ MODULE GrbStream ------------------------------
(***************************************************************************)
(* C20 (and the crash-point part of C12): the fault space of the loaders.  *)
(* The binary knowledge-base stream is a sequence of fields - 8-byte       *)
(* little-endian lengths and counts, strings, one-byte booleans, raw       *)
(* constant payloads, counted lists of node ids.  A loader must turn every *)
(* damaged stream into a result or an error with time and memory bounded   *)
(* by the input size, so the model carries no semantics: it enumerates the *)
(* structure-aware fault descriptors of the property's quantifier - an     *)
(* 8-byte field overwritten by a boundary value at an offset, a bit flip,  *)
(* a truncation, a splice - and, for the text loaders, truncations and     *)
(* boundary insertions.  Expected outcome of every case: Bounded.          *)
(***************************************************************************)
EXTENDS Integers, Sequences, FiniteSets, TLC, Json

CONSTANTS Offsets,     \* which length / count fields are overwritten: the n-th from the start and the n-th from the end of the stream
          FlipOffsets, CutFractions, TextCuts

\* boundary values of a length / count field, as powers of two and neighbours (TLC integers are 32 bit: named)
Boundary == {"0", "1", "255", "2^16", "2^20", "2^24", "2^30", "2^31", "2^32", "2^36", "2^40", "2^44", "2^48", "2^56", "2^63-1", "2^63", "2^64-1", "len-1", "len+1", "len*2"}
Loaders == {"grb", "grl", "jsonrule", "jsonfact"}
Faults == {[loader |-> "grb", kind |-> "edit8", at |-> o, val |-> v, from |-> w] : o \in Offsets, v \in Boundary, w \in {"start", "end"}}
          \* every integer field of the stream (the harness finds them with a recording reader) overwritten by a dangerous value
          \cup {[loader |-> "grb", kind |-> "sweep8", at |-> 0, val |-> v, from |-> "start"] : v \in {"0", "len+1", "2^20", "2^24", "2^31", "2^36", "2^44", "2^63", "2^64-1"}}
          \* reference splicing: every node-id reference of the stream replaced by another id of the same stream (a nearby one: itself, its
          \* parent, a sibling - or a random one), which can close a cycle or point a reference at a node of the wrong type
          \cup {[loader |-> "grb", kind |-> "idswap", at |-> 0, val |-> v, from |-> "start"] : v \in {"near", "random"}}
          \cup {[loader |-> "grb", kind |-> "flip", at |-> o, val |-> b, from |-> w] : o \in FlipOffsets, b \in {"bit0", "bit3", "bit7"}, w \in {"start", "end"}}
          \cup {[loader |-> "grb", kind |-> "cut", at |-> f, val |-> "0", from |-> "start"] : f \in CutFractions}
          \cup {[loader |-> "grb", kind |-> "splice", at |-> f, val |-> g, from |-> "start"] : f \in CutFractions, g \in {"head", "tail", "self"}}
          \cup {[loader |-> l, kind |-> k, at |-> c, val |-> v, from |-> "start"] : l \in {"grl", "jsonrule", "jsonfact"}, k \in {"cut", "insert", "repeat"},
                   c \in TextCuts, v \in {"bignum", "deep", "quote", "nul", "brace", "longname", "unicode", "blank", "longchain", "selchain", "deepcmp", "nullroot"}}
          \* every operator of the JSON rule language (19 of them, by index) with an empty / null / one-element / wrong-typed operand list
          \cup {[loader |-> "jsonrule", kind |-> "emptyop", at |-> i, val |-> v, from |-> "start"] : i \in 0..18, v \in {"empty", "null", "one", "object", "string"}}
          \* two faults in one text: an early one that makes the loader give up on a rule (and may leave its internal state half way),
          \* followed by boundary material in a later, otherwise well-formed rule
          \cup {[loader |-> l, kind |-> "double", at |-> c, val |-> v, from |-> "start"] : l \in {"grl", "jsonrule"}, c \in TextCuts,
                   v \in {"widesal", "badesc", "dupname", "badtoken", "unclosed"}}
Outcome(f) == "Bounded"     \* a result or an error; no panic, abort, hang or allocation far beyond the input

VARIABLE case
Init == \E f \in Faults : case = [fam |-> "fault", fault |-> f, want |-> Outcome(f)]
Next == UNCHANGED case
Spec == Init /\ [][Next]_case
Export == PrintT("CASE " \o ToJson(case))
=============================================================================
