SPECIFICATION Spec
CONSTANTS
  FixTop = TRUE
  AllowAlias = FALSE
INVARIANTS MemoSound Export
CHECK_DEADLOCK FALSE
