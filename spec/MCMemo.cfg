SPECIFICATION Spec
CONSTANTS
  Ext = FALSE
  FixTop = TRUE
  AllowAlias = FALSE
INVARIANTS MemoSound Export
CHECK_DEADLOCK FALSE
