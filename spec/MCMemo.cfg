SPECIFICATION Spec
CONSTANTS
  WithErr = FALSE
  Ext = FALSE
  FixTop = TRUE
  AllowAlias = FALSE
INVARIANTS MemoSound Export
CHECK_DEADLOCK FALSE
