SPECIFICATION Spec
CONSTANTS
  G = 2
  K = 5
INVARIANTS Isolated BlueprintReadOnly Export
CHECK_DEADLOCK FALSE
