------------------------------ MODULE MCEngine ------------------------------
(* Bounded instance of GruleEngine: a family of small rule sets over three integer facts, every    *)
(* evaluation order, every MaxCycle in 0..3, both flag values, cancellation at every control point. *)
EXTENDS GruleEngine

F(n)      == [k |-> "p", path |-> << [n |-> "F"], [n |-> n] >>]
C(v)      == [k |-> "c", t |-> "i", v |-> v]
Bin(o, a, b) == [k |-> "bin", op |-> o, l |-> a, r |-> b]
Asg(n, form, e) == [k |-> "asg", path |-> << [n |-> "F"], [n |-> n] >>, form |-> form, e |-> e]
Retract(n) == [k |-> "retract", name |-> n]
Complete   == [k |-> "complete"]
Rule(s, w, a) == [sal |-> s, w |-> w, a |-> a, del |-> FALSE]
Bad == [k |-> "p", path |-> << [n |-> "F"], [n |-> "Q"], [n |-> "V"] >>]   \* nil pointer: evaluation fails

Conds == {Bin("lt", F("X"), C(2)), Bin("gt", F("Y"), F("X")), Bin("eq", F("X"), F("Y")),
          Bin("and", Bin("ge", F("X"), C(1)), Bin("lt", F("Y"), C(2))), Bin("gt", Bad, C(0))}
Acts == {<<Asg("X", "add", C(1))>>, <<Asg("Y", "set", F("X"))>>, <<Asg("Y", "add", C(1)), Retract("A")>>,
         <<Retract("B"), Asg("X", "set", C(0))>>, <<Complete, Asg("X", "add", C(1))>>,
         <<Asg("X", "add", C(1)), Asg("Y", "set", Bad), Asg("X", "set", C(9))>>}
Sals == {-1, 0, 0, 1}

MCPrograms == { [A |-> Rule(sa, wa, aa), B |-> Rule(sb, wb, ab)] :
                   sa \in Sals, sb \in {0, 1}, wa \in Conds, wb \in Conds, aa \in Acts, ab \in Acts }
              \cup { [A |-> Rule(0, wa, aa), B |-> [Rule(1, wb, ab) EXCEPT !.del = TRUE], C |-> Rule(1, wa, ab)] :
                   wa \in Conds, wb \in Conds, aa \in Acts, ab \in Acts }
MCProgramsSmall == { [A |-> Rule(sa, wa, aa), B |-> Rule(0, wb, ab)] :
                   sa \in {0, 1}, wa \in Conds, wb \in {Bin("lt", F("X"), C(2)), Bin("gt", Bad, C(0))},
                   aa \in Acts, ab \in {<<Asg("X", "add", C(1))>>, <<Retract("B"), Asg("X", "set", C(0))>>} }
MCProgramsQuick == { [A |-> Rule(sa, wa, aa), B |-> Rule(0, wb, ab)] :
                   sa \in {-1, 0, 1}, wa \in Conds, wb \in Conds, aa \in Acts, ab \in Acts }
MCFacts == { [x \in {"F.X", "F.Y"} |-> IF x = "F.X" THEN a ELSE b] : a \in 0..2, b \in 0..2 }
\* the engine cannot run away: values stay small because MaxCycle <= 3
=============================================================================
