------------------------------ MODULE GruleReuse ------------------------------
(***************************************************************************)
(* C08: histories of calls on ONE knowledge-base instance.  Each call is   *)
(* Execute, ExecuteWithContext or FetchMatchingRules with its own facts    *)
(* and its own way of ending: normally, by Complete, by an action error,   *)
(* at the cycle limit, by cancellation - every one of them after a rule    *)
(* retracted itself (and values were remembered).  The contract: every     *)
(* call starts from the state of a freshly created instance.  The model    *)
(* keeps the instance's call-local state (retracted rules, remembered      *)
(* nodes, completion) and the action `Start` that has to clear it; TLC     *)
(* checks FreshAtStart on every history up to Depth and exports each       *)
(* history; the harness realises the endings with a fixed rule set whose   *)
(* ending is chosen by the facts and runs the history on one real          *)
(* instance, every call's trace being validated as an independent layer-A  *)
(* behaviour.                                                              *)
(***************************************************************************)
EXTENDS Integers, Sequences, FiniteSets, TLC, Json

CONSTANTS Depth
Kinds == {"exec", "execctx", "fetch"}
Endings == {"normal", "complete", "acterr", "max", "cancel"}

VARIABLES retracted,   \* rules retracted in the instance
          remembered,  \* the working memory holds values
          complete,    \* completion reached (lives in the data context: a new one per call)
          running,     \* a call is in progress
          hist         \* sequence of [kind, ending]

vars == <<retracted, remembered, complete, running, hist>>
Init == retracted = {} /\ remembered = FALSE /\ complete = FALSE /\ running = FALSE /\ hist = <<>>

\* a call starts: the engine resets the instance (knowledge.Reset, ResetAll) and gets a new data context
Start(k, e) == /\ ~running /\ Len(hist) < Depth
               /\ running' = TRUE
               /\ retracted' = {} /\ remembered' = FALSE /\ complete' = FALSE       \* <- what every entry point must do
               /\ hist' = Append(hist, [kind |-> k, ending |-> e])
\* the call runs and ends: whatever the ending, it leaves call-local state behind in the instance
Finish == /\ running /\ running' = FALSE
          /\ LET c == hist[Len(hist)] IN
             /\ remembered' = TRUE
             /\ retracted' = IF c.kind = "fetch" THEN retracted ELSE {"Ret"}    \* the rule that retracts itself fired first
             /\ complete' = (c.ending = "complete")
          /\ UNCHANGED hist
Next == (\E k \in Kinds, e \in Endings : (k = "fetch" => e \in {"normal", "acterr"}) /\ Start(k, e)) \/ Finish
Spec == Init /\ [][Next]_vars
\* C08: at the first step of every call the instance looks freshly created
FreshAtStart == running /\ ~remembered => (retracted = {} /\ ~complete)
LeaksBetweenCalls == [][(~running /\ running') => (retracted' = {} /\ ~remembered' /\ ~complete')]_vars
Export == (Len(hist) = Depth /\ ~running) => PrintT("CASE " \o ToJson([fam |-> "reuse", calls |-> hist]))
=============================================================================
