SPECIFICATION Spec
CONSTANT TraceFile = "trace.ndjson"
CONSTANT Focus = "none"
INVARIANT Summary
POSTCONDITION Consumed
CHECK_DEADLOCK FALSE
