SPECIFICATION Spec
CONSTANT TraceFile = "trace.ndjson"
INVARIANT Summary
POSTCONDITION Consumed
CHECK_DEADLOCK FALSE
