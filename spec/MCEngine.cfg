SPECIFICATION Spec
CONSTANTS
  Programs <- MCPrograms
  FactStates <- MCFacts
  MaxCycles = {0, 1, 2, 3}
  Flags = {TRUE, FALSE}
  CanCancel = TRUE
VIEW view
INVARIANTS TypeOK QuiescentAtNil WithinBudget MaxIsJustified CompleteEnds ErrorsNamed
PROPERTIES FiresOnlyTrue FiresMaxSalience RetractedStaysOut NoFireAfterCancel
CHECK_DEADLOCK FALSE
