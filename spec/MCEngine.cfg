SPECIFICATION Spec
CONSTANTS
  Programs <- MCPrograms
  FactStates <- MCFacts
  MaxCycles = {0, 1, 2, 3}
  Flags = {TRUE, FALSE}
  Modes = {"exec", "fetch"}
  MaxCalls = 1
  CanCancel = TRUE
VIEW view
INVARIANTS TypeOK FetchExact QuiescentAtNil WithinBudget MaxIsJustified CompleteEnds ErrorsNamed
PROPERTIES FetchPure FreshAtStart FiresOnlyTrue FiresMaxSalience RetractedStaysOut NoFireAfterCancel
CHECK_DEADLOCK FALSE
