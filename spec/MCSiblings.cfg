SPECIFICATION Spec
INVARIANTS Export Distinguishable
CHECK_DEADLOCK FALSE
