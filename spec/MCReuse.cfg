SPECIFICATION Spec
CONSTANT Depth = 3
INVARIANTS FreshAtStart Export
PROPERTY LeaksBetweenCalls
CHECK_DEADLOCK FALSE
