SPECIFICATION Spec
INVARIANT Export
CHECK_DEADLOCK FALSE
