------------------------------ MODULE GruleConc ------------------------------
(***************************************************************************)
(* C09 (concurrency part): G goroutines each create an instance of one     *)
(* shared library and execute it on their own facts.  Every observable     *)
(* step of a goroutine (instance creation, listener callbacks) is one      *)
(* action; TLC enumerates all interleavings.  The design-level statement:  *)
(* the library is only read, an instance is only touched by its owner, so  *)
(* every goroutine's projection is its sequential run.  The behaviours are *)
(* exported as schedules and replayed on the real code with the listener   *)
(* callbacks as blocking gates, under the race detector.                   *)
(***************************************************************************)
EXTENDS Integers, Sequences, FiniteSets, TLC, Json

CONSTANTS G,        \* number of goroutines
          K         \* gated steps per goroutine (step 1 = NewKnowledgeBaseInstance, then listener callbacks)

VARIABLES pc,       \* [1..G -> 0..K] steps taken
          owner,    \* instance id -> goroutine that created it (instance i belongs to goroutine i)
          touched,  \* instance id -> set of goroutines that ever used it
          libReads, \* number of reads of the shared blueprint (clone)
          libWrites,\* writes to the shared blueprint: must stay 0
          sched     \* history: the interleaving so far

vars == <<pc, owner, touched, libReads, libWrites, sched>>
Procs == 1..G
Init == /\ pc = [p \in Procs |-> 0] /\ owner = [p \in Procs |-> 0] /\ touched = [p \in Procs |-> {}]
        /\ libReads = 0 /\ libWrites = 0 /\ sched = <<>>
\* step 1: clone the blueprint (reads the library); later steps: run on the own instance
Step(p) == /\ pc[p] < K
           /\ pc' = [pc EXCEPT ![p] = pc[p] + 1]
           /\ IF pc[p] = 0
              THEN owner' = [owner EXCEPT ![p] = p] /\ libReads' = libReads + 1 /\ UNCHANGED touched
              ELSE touched' = [touched EXCEPT ![p] = touched[p] \cup {p}] /\ UNCHANGED <<owner, libReads>>
           /\ UNCHANGED libWrites
           /\ sched' = Append(sched, p)
Next == \E p \in Procs : Step(p)
Spec == Init /\ [][Next]_vars
Isolated == \A i \in Procs : touched[i] \subseteq {owner[i]}
BlueprintReadOnly == libWrites = 0
Done == \A p \in Procs : pc[p] = K
Export == Done => PrintT("CASE " \o ToJson([fam |-> "schedule", g |-> G, k |-> K, sched |-> sched]))
=============================================================================
