SPECIFICATION Spec
CONSTANTS
  Ext = TRUE
  FixTop = TRUE
  AllowAlias = FALSE
INVARIANTS MemoSound Export
CHECK_DEADLOCK FALSE
