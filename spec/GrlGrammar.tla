------------------------------ MODULE GrlGrammar ------------------------------
(***************************************************************************)
(* C17: the GRL grammar at the level of token kinds - an independent       *)
(* recogniser of   grl : ruleEntry* EOF   (recursive operators returning   *)
(* the index after the construct, 0 on failure), the literal validity      *)
(* classes the builder must enforce on top of the grammar (integer and     *)
(* salience range, string escapes, distinct rule names), and the mutation  *)
(* operators of the property's quantifier.  TLC takes valid documents that *)
(* together use every construct, applies every single mutation at every    *)
(* position and exports (tokens, accepted?, declared rule table).           *)
(*                                                                         *)
(* Token kinds (the harness prints a representative text for each):        *)
(*  rule when then salience { } ( ) [ ] . , ; !  name str int float bool   *)
(*  nil asg mul add - cmp and or      and the invalid / special ones       *)
(*  bad (illegal character)  badstr (unterminated string)                  *)
(*  escstr (string with an invalid escape: lexes, must be refused)         *)
(*  dqstr (string holding its own quote doubled: one token, must be refused)*)
(*  bigint (integer beyond int64: lexes, must be refused)                  *)
(*  wideint (fits int64 but not int32: fine as operand, refused as salience)*)
(*  samename (an identifier equal to the first rule's name)                *)
(***************************************************************************)
EXTENDS Integers, Sequences, FiniteSets, TLC, Json

Kinds == {"rule", "name", "str", "salience", "int", "float", "bool", "nil", "{", "}", "when", "then", ";",
          "asg", "(", ")", "[", "]", ".", ",", "!", "mul", "add", "-", "cmp", "and", "or",
          "bad", "badstr", "escstr", "dqstr", "bigint", "wideint", "samename"}
\* what the parser sees: the special kinds are ordinary tokens grammatically
Gram(k) == CASE k \in {"escstr", "dqstr"} -> "str" [] k \in {"bigint", "wideint"} -> "int" [] k = "samename" -> "name" [] OTHER -> k
G(t) == [i \in DOMAIN t |-> Gram(t[i])]

At(t, i) == IF i >= 1 /\ i <= Len(t) THEN t[i] ELSE "EOF"

RECURSIVE Expr(_, _), Unary(_, _), Atom(_, _), Suffixes(_, _), Args(_, _), BinLoop(_, _), VarSuf(_, _)
\* all return the index of the first token after the construct, or 0 on failure

Const(t, i) == CASE At(t, i) \in {"str", "int", "float", "bool", "nil"} -> i + 1
                 [] At(t, i) = "-" /\ At(t, i+1) \in {"int", "float"} -> i + 2
                 [] OTHER -> 0

Args(t, i) == \* after "(" : [expr ("," expr)*] ")"
  IF At(t, i) = ")" THEN i + 1
  ELSE LET j == Expr(t, i) IN
       IF j = 0 THEN 0
       ELSE IF At(t, j) = ")" THEN j + 1
       ELSE IF At(t, j) = "," /\ At(t, j+1) # ")" THEN Args(t, j + 1) ELSE 0

Suffixes(t, i) ==
  CASE At(t, i) = "." /\ At(t, i+1) = "name" /\ At(t, i+2) = "(" ->
         LET j == Args(t, i + 3) IN IF j = 0 THEN 0 ELSE Suffixes(t, j)
    [] At(t, i) = "." /\ At(t, i+1) = "name" /\ At(t, i+2) # "(" -> Suffixes(t, i + 2)
    [] At(t, i) = "[" -> LET j == Expr(t, i + 1) IN IF j = 0 \/ At(t, j) # "]" THEN 0 ELSE Suffixes(t, j + 1)
    [] OTHER -> i

Atom(t, i) ==
  CASE At(t, i) = "!" -> Atom(t, i + 1)
    [] At(t, i) = "name" /\ At(t, i+1) = "(" -> LET j == Args(t, i + 2) IN IF j = 0 THEN 0 ELSE Suffixes(t, j)
    [] At(t, i) = "name" -> Suffixes(t, i + 1)
    [] OTHER -> LET j == Const(t, i) IN IF j = 0 THEN 0 ELSE Suffixes(t, j)

Unary(t, i) ==
  CASE At(t, i) = "!" /\ At(t, i+1) = "(" -> LET j == Expr(t, i + 2) IN IF j = 0 \/ At(t, j) # ")" THEN 0 ELSE j + 1
    [] At(t, i) = "(" -> LET j == Expr(t, i + 1) IN IF j = 0 \/ At(t, j) # ")" THEN 0 ELSE j + 1
    [] OTHER -> Atom(t, i)

BinLoop(t, i) == IF At(t, i) \in {"mul","add","-","cmp","and","or"}
                 THEN LET j == Unary(t, i + 1) IN IF j = 0 THEN 0 ELSE BinLoop(t, j)
                 ELSE i
Expr(t, i) == LET j == Unary(t, i) IN IF j = 0 THEN 0 ELSE BinLoop(t, j)

VarSuf(t, i) ==
  CASE At(t, i) = "." /\ At(t, i+1) = "name" -> VarSuf(t, i + 2)
    [] At(t, i) = "[" -> LET j == Expr(t, i + 1) IN IF j = 0 \/ At(t, j) # "]" THEN 0 ELSE VarSuf(t, j + 1)
    [] OTHER -> i
Variable(t, i) == IF At(t, i) = "name" THEN VarSuf(t, i + 1) ELSE 0

ThenExpr(t, i) ==
  LET v == Variable(t, i) IN
  IF v # 0 /\ At(t, v) = "asg" THEN Expr(t, v + 1) ELSE Atom(t, i)

RECURSIVE ThenList(_, _, _)
ThenList(t, i, n) == LET j == ThenExpr(t, i) IN
  IF j = 0 \/ At(t, j) # ";" THEN (IF n > 0 /\ At(t, i) = "}" THEN i ELSE 0)
  ELSE IF At(t, j + 1) = "}" THEN j + 1 ELSE ThenList(t, j + 1, n + 1)


\* rule header: returns [next, nameAt, desc, sal] ; sal: 0 none, 1 positive literal, -1 negative literal
Header(t, i) ==
  IF At(t, i) # "rule" \/ At(t, i+1) # "name" THEN [next |-> 0] ELSE
  LET hasDesc == At(t, i+2) = "str"
      a == IF hasDesc THEN i + 3 ELSE i + 2
      sal == IF At(t, a) # "salience" THEN 0 ELSE IF At(t, a+1) = "int" THEN 1 ELSE IF At(t, a+1) = "-" /\ At(t, a+2) = "int" THEN -1 ELSE 2
      b == CASE sal = 0 -> a [] sal = 1 -> a + 2 [] sal = -1 -> a + 3 [] OTHER -> 0
  IN [next |-> b, nameAt |-> i + 1, desc |-> hasDesc, descAt |-> i + 2, sal |-> sal, salAt |-> IF sal = 1 THEN a + 1 ELSE a + 2]

RuleEntry(t, i) ==
  LET h == Header(t, i) IN
  IF h.next = 0 \/ At(t, h.next) # "{" \/ At(t, h.next + 1) # "when" THEN 0 ELSE
  LET c == Expr(t, h.next + 2) IN
  IF c = 0 \/ At(t, c) # "then" THEN 0 ELSE
  LET d == ThenList(t, c + 1, 0) IN
  IF d = 0 \/ At(t, d) # "}" THEN 0 ELSE d + 1

\* the sequence of rule headers of a grammatical document
RECURSIVE Headers(_, _)
Headers(t, i) == IF i > Len(t) THEN <<>> ELSE LET j == RuleEntry(t, i) IN IF j = 0 THEN <<>> ELSE <<Header(t, i)>> \o Headers(t, j)
RECURSIVE Grl(_, _)
Grl(t, i) == IF i = Len(t) + 1 THEN TRUE ELSE LET j == RuleEntry(t, i) IN IF j = 0 THEN FALSE ELSE Grl(t, j)

Lexes(t) == \A i \in DOMAIN t : t[i] \notin {"bad", "badstr"}
LiteralsValid(t) == \A i \in DOMAIN t : t[i] \notin {"escstr", "dqstr", "bigint"}
SalienceInRange(t) == LET hs == Headers(G(t), 1) IN \A k \in DOMAIN hs : hs[k].sal \in {1, -1} => t[hs[k].salAt] = "int"
NamesDistinct(t) == LET hs == Headers(G(t), 1) IN \A k \in DOMAIN hs : k > 1 => t[hs[k].nameAt] # "samename"
Grammatical(t) == Lexes(t) /\ Grl(G(t), 1)
Accepts(t) == Grammatical(t) /\ LiteralsValid(t) /\ SalienceInRange(t) /\ NamesDistinct(t)
\* syntax problems must be reported through the error reporter; the other refusals are errors of any kind
SyntaxError(t) == ~Grammatical(t)

\* ---- valid documents that together use every construct of the grammar ----
Base1 == << "rule", "name", "str", "salience", "-", "int", "{", "when",
            "name", ".", "name", "cmp", "int", "and", "!", "(", "name", ".", "name", "(", "str", ",", "name", "[", "int", "]", ")", "add", "-", "float", ")",
            "then", "name", ".", "name", "asg", "name", ".", "name", "mul", "(", "int", "add", "name", ")", ";",
            "name", "(", "str", ")", ";", "}" >>
Base2 == << "rule", "name", "{", "when", "bool", "then", "name", "asg", "wideint", ";", "}",
            "rule", "name", "str", "{", "when", "name", "cmp", "float", "or", "!", "name", "then",
            "name", "[", "str", "]", "asg", "nil", ";", "name", ".", "name", "(", ")", ";", "}" >>
Base3 == << "rule", "name", "salience", "int", "{", "when", "(", "name", "cmp", "-", "int", ")", "and", "(", "!", "!", "name", ")",
            "then", "name", ".", "name", "(", "int", ",", "str", ")", ".", "name", "(", ")", ";",
            "name", ".", "name", "[", "name", ".", "name", "]", ".", "name", "asg", "str", ".", "name", "(", ")", ";", "}" >>
Base4 == SubSeq(Base2, 1, 11) \o Base3          \* a rule without salience, then one with a salience clause
Bases == <<Base1, Base2, Base3, Base4>>

Del(t, i) == SubSeq(t, 1, i - 1) \o SubSeq(t, i + 1, Len(t))
Rep(t, i, k) == [t EXCEPT ![i] = k]
Ins(t, i, k) == SubSeq(t, 1, i - 1) \o <<k>> \o SubSeq(t, i, Len(t))
Swp(t, i) == [t EXCEPT ![i] = t[i+1], ![i+1] = t[i]]
Dup(t, i) == Ins(t, i, t[i])

VARIABLE case
Mk(b, m, i, t) == case = [fam |-> "grammar", base |-> b, mut |-> m, at |-> i, toks |-> t, accepts |-> Accepts(t), syntax |-> SyntaxError(t),
                          rules |-> IF Grammatical(t) THEN [k \in DOMAIN Headers(G(t), 1) |->
                                       LET h == Headers(G(t), 1)[k] IN [nameAt |-> h.nameAt, desc |-> h.desc, descAt |-> h.descAt, sal |-> h.sal, salAt |-> h.salAt]]
                                    ELSE <<>>]
CONSTANTS BaseIds,
          Double       \* thorough tier: two mutations in one document - one that makes the builder give up on the FIRST rule
                       \* (and may leave its internal state half way), one in a LATER rule
Stoppers == {"bad", "badstr", "escstr", "dqstr", "bigint", "(", "}", "samename"}
Laters == {"wideint", "bigint", "int", "escstr", "samename", "str", "name", "float"}
InitDouble == \E b \in {2, 4} : LET base == Bases[b] IN
                \E i \in 1..11, k1 \in Stoppers, j \in 12..Len(base), k2 \in Laters :
                   Mk(b, "double", i * 100 + j, Rep(Rep(base, i, k1), j, k2))
Init == IF Double THEN InitDouble ELSE \E b \in BaseIds : LET base == Bases[b] IN
          \/ Mk(b, "none", 0, base)
          \/ \E i \in 1..Len(base) : Mk(b, "delete", i, Del(base, i)) \/ Mk(b, "duplicate", i, Dup(base, i))
          \/ \E i \in 1..Len(base), k \in Kinds : Mk(b, "replace", i, Rep(base, i, k))
          \/ \E i \in 1..(Len(base) + 1), k \in Kinds : Mk(b, "insert", i, Ins(base, i, k))
          \/ \E i \in 1..(Len(base) - 1) : Mk(b, "swap", i, Swp(base, i))
          \/ Mk(b, "truncate-all", 0, <<>>)
Next == UNCHANGED case
Spec == Init /\ [][Next]_case
BasesValid == case.mut = "none" => case.accepts
Export == PrintT("CASE " \o ToJson(case))
=============================================================================
