SPECIFICATION Spec
CONSTANTS
  Ext = FALSE
  FixTop = TRUE
  AllowAlias = TRUE
INVARIANTS MemoSound
CHECK_DEADLOCK FALSE
