SPECIFICATION Spec
CONSTANTS
  WithErr = FALSE
  Ext = FALSE
  FixTop = TRUE
  AllowAlias = TRUE
INVARIANTS MemoSound
CHECK_DEADLOCK FALSE
