SPECIFICATION Spec
CONSTANTS
  FixTop = TRUE
  AllowAlias = TRUE
INVARIANTS MemoSound
CHECK_DEADLOCK FALSE
