SPECIFICATION Spec
CONSTANTS
  Family = "flat3"
  IntLeaves = {1, 2, 3, 6}
  BoolLeaves = {TRUE, FALSE}
  OtherLeaves = {}
INVARIANTS Export AmpOnly
CHECK_DEADLOCK FALSE
