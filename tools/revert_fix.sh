#!/bin/bash
# usage: revert_fix.sh <fix-commit> <property-id>...   reverse-applies a "fix:" commit to /repo's working tree,
# runs the checks (they must report the violation again), and restores the tree.
h=$1; shift
cd /repo || exit 2
if [ -n "$(git status --porcelain --untracked-files=no)" ]; then echo "/repo is dirty, refusing"; exit 2; fi
git show $h | git apply -R || { echo "cannot reverse-apply $h"; exit 2; }
trap 'git -C /repo checkout -- .' EXIT
cd /verif
for p in "$@"; do
  echo "=== $p with $(git -C /repo log --format=%s -1 $h) reverted"
  ./check $p 2>&1 | grep -E "VIOLATION|KNOWN-FINDING|TOOL-ERROR|diverges|first failing guard" | cut -c1-300 | head -6
  echo "exit=${PIPESTATUS[0]}"
done
