#!/bin/bash
# usage: import_seed.sh <Cxx> <A..F>   copies a confirmed seeded change from its scratch worktree into /verif/seeded
id=$1; x=$2; src=/tmp/wt/$id; dst=/verif/seeded/$id-$x
grep -q "RESULT confirmed" $src/_seed/$x.confirm.log || { echo "$id-$x not confirmed"; exit 1; }
mkdir -p $dst
cp $src/_seed/$x.patch.diff $dst/patch.diff
cp $src/_seed/${x}_demo_test.go $dst/demo_test.go 2>/dev/null || cp $src/seeddemo/demo_${x}_test.go $dst/demo_test.go
cp $src/_seed/$x.notes.md $dst/notes.md
cp $src/_seed/$x.confirm.log $dst/confirm.log
python3 - "$id" "$x" "$dst" <<'PY'
import json,sys,re
id,x,dst=sys.argv[1:]
notes=open(dst+'/notes.md').read()
meta={"id":id+"-"+x,"breaks_property":id,"origin":"sub-agent given only the property text and a scratch worktree (/tmp/wt/%s)"%id,
 "needs_to_manifest":"see notes.md","confirmed_by":"tools/confirm_seed.sh: patch applies on the fixed HEAD, tree builds, unedited suite passes with it, demonstration fails with it and passes without it (confirm.log)",
 "checks_run":[], "detected_by":[]}
json.dump(meta,open(dst+'/meta.json','w'),indent=1)
PY
echo imported $dst
