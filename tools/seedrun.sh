#!/bin/bash
# usage: seedrun.sh <patch.diff> <property-id>...   (VERIF_TIER / VERIF_SEED honoured)
# Applies a seeded change to /repo, runs the given checks, and undoes the change straight afterwards.
patch=$1; shift
cd /repo || exit 2
if [ -n "$(git status --porcelain --untracked-files=no)" ]; then echo "/repo is dirty, refusing"; exit 2; fi
git apply "$patch" || { echo "patch does not apply"; exit 2; }
trap 'git -C /repo checkout -- .' EXIT
cd /verif
for p in "$@"; do
  echo "=== $p against $(basename $(dirname $patch))/$(basename $patch)"
  ./check $p 2>&1 | grep -E "VIOLATION|KNOWN-FINDING|TOOL-ERROR|first failing guard|traces /|exit" | head -12
  echo "exit=${PIPESTATUS[0]}"
done
