#!/bin/bash
# usage: seed_lane.sh <lane-number> <seed-dir-name>...   runs seed_matrix.py for the given seeded changes against a private copy
# of /repo's HEAD (/var/tmp/sr<lane>), so that several lanes can work side by side without touching /repo
k=$1; shift
d=/var/tmp/sr$k
rm -rf "$d"; git -C /repo worktree prune; git clone -q /repo "$d" || exit 2
cd "$(dirname "$0")/.." || exit 2
VERIF_REPO=$d python3 tools/seed_matrix.py "$@"
rm -rf "$d"
