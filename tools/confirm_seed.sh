#!/bin/bash
# usage: confirm_seed.sh <worktree> <A..H>
# Confirms a seeded change independently: patch applies, tree builds, the unedited suite passes with it,
# the demonstration fails with it and passes without it. Writes <worktree>/_seed/<X>.confirm.log
wt=$1; x=$2
export GOFLAGS=-mod=mod GOPROXY=off GOSUMDB=off GOTOOLCHAIN=local
cd "$wt" || exit 2
log=_seed/$x.confirm.log
: > $log
git checkout -q -- . 2>/dev/null
git apply --check _seed/$x.patch.diff >> $log 2>&1 || { echo "RESULT patch-does-not-apply" >> $log; exit 1; }
demo=$(ls seeddemo/*_test.go 2>/dev/null | grep -i "_${x}_\|${x}_test\|demo_${x}" | head -1)
echo "demo file: $demo" >> $log
runre="."
# pristine demo
go1.26.8 test -vet=off -count=1 ./seeddemo/ -run "$runre" > _seed/$x.demo_pristine.log 2>&1; p0=$?
git apply _seed/$x.patch.diff
go1.26.8 build ./... >> $log 2>&1 || { echo "RESULT does-not-build" >> $log; git checkout -q -- .; exit 1; }
go1.26.8 test -vet=off -count=1 ./seeddemo/ -run "$runre" > _seed/$x.demo_mutant.log 2>&1; p1=$?
pk=$(go1.26.8 list ./... | grep -v seeddemo)
go1.26.8 test -vet=off -count=1 -skip 'TestGitResource|TestNewURLResource' $pk > _seed/$x.suite_mutant.log 2>&1; s=$?
git checkout -q -- .
echo "pristine-demo-exit=$p0 mutant-demo-exit=$p1 suite-with-mutant-exit=$s" >> $log
if [ $s -eq 0 ] && [ $p1 -ne 0 ]; then echo "RESULT confirmed (note: pristine demo runs both A and B demos; see logs)" >> $log; else echo "RESULT NOT-confirmed" >> $log; fi
