#!/usr/bin/env python3
"""usage: seed_matrix.py [seed-dir-name ...] [--props C01,C02]
Applies each seeded change to /repo in turn, runs the check of the property it breaks (quick tier, or the
properties given), undoes the change, and records the outcome in seeded/<id>/meta.json."""
import json, os, subprocess, sys
V = os.path.dirname(os.path.dirname(os.path.abspath(__file__)))
REPO = os.environ.get("VERIF_REPO", "/repo")
args = [a for a in sys.argv[1:] if not a.startswith("--")]
props_override = None
for a in sys.argv[1:]:
    if a.startswith("--props="):
        props_override = a.split("=", 1)[1].split(",")
names = args or sorted(os.listdir(V + "/seeded"))
for n in names:
    d = os.path.join(V, "seeded", n)
    if not os.path.exists(d + "/patch.diff"):
        continue
    meta = json.load(open(d + "/meta.json"))
    if meta.get("retired"):
        print(n, "retired:", meta["retired"][:80]); continue
    props = props_override or [meta["breaks_property"]]
    if subprocess.run(["git", "-C", REPO, "status", "--porcelain", "--untracked-files=no"], capture_output=True, text=True).stdout.strip():
        sys.exit(REPO + " is dirty")
    if subprocess.run(["git", "-C", REPO, "apply", d + "/patch.diff"]).returncode != 0:
        print(n, "PATCH DOES NOT APPLY"); continue
    try:
        for p in props:
            r = subprocess.run(["./check", p], cwd=V, capture_output=True, text=True, env=dict(os.environ, VERIF_TIER=os.environ.get("VERIF_TIER", "quick")))
            viol = [l for l in r.stdout.splitlines() if l.startswith("VIOLATION") or l.startswith("TOOL-ERROR") or "first failing guard" in l]
            rec = {"check": p, "tier": os.environ.get("VERIF_TIER", "quick"), "exit": r.returncode, "lines": viol[:8]}
            meta["checks_run"] = [c for c in meta.get("checks_run", []) if c["check"] != p] + [rec]
            det = set(meta.get("detected_by", []))
            if r.returncode == 1:
                det.add(p)
            else:
                det.discard(p)
            meta["detected_by"] = sorted(det)
            print(n, p, "exit", r.returncode, "|", "; ".join(v.strip() for v in viol[:4])[:300], flush=True)
    finally:
        subprocess.run(["git", "-C", REPO, "checkout", "--", "."])
    json.dump(meta, open(d + "/meta.json", "w"), indent=1)
