#!/bin/bash
# usage: reconfirm_seed.sh <seed-id> <repo-copy>
# Confirms a stored seeded change again on the CURRENT head of /repo (after a fix commit moved it): in <repo-copy> (a scratch clone
# at that head) the demonstration passes without the patch, the patch applies and builds, the demonstration fails with it and the
# unedited suite passes with it. Appends the outcome to seeded/<id>/confirm.log
id=$1; wt=$2; d=/verif/seeded/$id
export GOFLAGS=-mod=mod GOPROXY=off GOSUMDB=off GOTOOLCHAIN=local
cd "$wt" || exit 2
git reset -q --hard HEAD; rm -rf seeddemo; mkdir seeddemo; cp $d/demo_test.go seeddemo/demo_test.go
go1.26.8 test -vet=off -count=1 ./seeddemo/ > /dev/null 2>&1; p0=$?
git apply $d/patch.diff || { echo "reconfirm $(git rev-parse --short HEAD): patch does not apply" >> $d/confirm.log; exit 1; }
go1.26.8 build ./... || { echo "reconfirm: does not build" >> $d/confirm.log; git reset -q --hard HEAD; exit 1; }
go1.26.8 test -vet=off -count=1 ./seeddemo/ > /dev/null 2>&1; p1=$?
pk=$(go1.26.8 list ./... | grep -v seeddemo)
go1.26.8 test -vet=off -count=1 -skip 'TestGitResource|TestNewURLResource' $pk > /var/tmp/reconfirm_$id.log 2>&1; s=$?
git reset -q --hard HEAD; rm -rf seeddemo
echo "reconfirm on $(git rev-parse --short HEAD): pristine-demo-exit=$p0 mutant-demo-exit=$p1 suite-with-mutant-exit=$s" >> $d/confirm.log
echo "$id pristine=$p0 mutant=$p1 suite=$s"
