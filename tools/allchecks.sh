#!/bin/bash
# usage: allchecks.sh [property...]   runs the registered checks (VERIF_TIER / VERIF_SEED honoured) and prints one line each
cd "$(dirname "$0")/.." || exit 2
props=${@:-C01 C02 C03 C04 C05 C06 C07 C08 C09 C10 C11 C12 C13 C14 C15 C16 C17 C18 C19 C20}
for p in $props; do
  t0=$(date +%s)
  out=$(./check $p 2>&1); rc=$?
  echo "$p exit=$rc $(( $(date +%s) - t0 ))s | $(echo "$out" | grep -E 'VIOLATION|TOOL-ERROR' | head -3 | tr '\n' ';' | cut -c1-300)"
done
