#!/usr/bin/env python3
"""usage: benign_matrix.py <dir with Bxx.patch.diff> <patch-name>:<props,comma> ...
Applies each behaviour-preserving change to the repo copy in VERIF_REPO, runs the given checks and reports every check that does
not exit 0: a false alarm of the machinery (results are written to benign/<name>.json)."""
import json, os, subprocess, sys
V = os.path.dirname(os.path.dirname(os.path.abspath(__file__)))
REPO = os.environ.get("VERIF_REPO", "/repo")
src = sys.argv[1]
os.makedirs(os.path.join(V, "benign"), exist_ok=True)
for spec in sys.argv[2:]:
    name, props = spec.split(":")
    patch = os.path.join(src, name + ".patch.diff")
    if subprocess.run(["git", "-C", REPO, "status", "--porcelain", "--untracked-files=no"], capture_output=True, text=True).stdout.strip():
        sys.exit(REPO + " is dirty")
    if subprocess.run(["git", "-C", REPO, "apply", patch]).returncode != 0:
        print(name, "PATCH DOES NOT APPLY"); continue
    res = []
    try:
        for p in props.split(","):
            r = subprocess.run(["./check", p], cwd=V, capture_output=True, text=True, env=dict(os.environ, VERIF_TIER="quick"))
            lines = [l for l in r.stdout.splitlines() if l.startswith("VIOLATION") or l.startswith("TOOL-ERROR") or "first failing guard" in l]
            res.append({"check": p, "exit": r.returncode, "lines": lines[:6]})
            print(name, p, "exit", r.returncode, "|", "; ".join(lines[:3])[:300], flush=True)
    finally:
        subprocess.run(["git", "-C", REPO, "checkout", "--", "."])
    json.dump({"change": name, "results": res}, open(os.path.join(V, "benign", name + ".json"), "w"), indent=1)
